// (library used by the build scripts of simcore, the unit crates and simctl)
// Generates the menu of interfaces the simulator runs the real
// `#[microscpi::interface]` macro on, together with the spec tables the
// scenario generators read.  Everything is derived from SIM_TREE_SEED (default
// fixed) so that a build is a pure function of (sources, seed).
//
// Families
//   tree  : recording ErrorHandler, multi-level trees where the same mnemonic
//           exists at several levels (t0 hand written, t1.. seeded)
//   zoo   : recording ErrorHandler, one query per supported response type
//   queue : ErrorCommands + StandardCommands, generic over the queue capacity
use std::collections::BTreeMap;
use std::fmt::Write as _;

#[derive(Clone, Copy, PartialEq, Debug)]
enum P {
    U8,
    I8,
    U16,
    I16,
    U32,
    I32,
    U64,
    I64,
    Usize,
    Isize,
    F32,
    F64,
    Bool,
    Str,
    Blk,
}

impl P {
    fn rust(self) -> &'static str {
        match self {
            P::U8 => "u8",
            P::I8 => "i8",
            P::U16 => "u16",
            P::I16 => "i16",
            P::U32 => "u32",
            P::I32 => "i32",
            P::U64 => "u64",
            P::I64 => "i64",
            P::Usize => "usize",
            P::Isize => "isize",
            P::F32 => "f32",
            P::F64 => "f64",
            P::Bool => "bool",
            P::Str => "&str",
            P::Blk => "&[u8]",
        }
    }
    fn log(self, name: &str) -> String {
        match self {
            P::U8 | P::U16 | P::U32 | P::U64 | P::Usize => format!("Arg::U({name} as u64)"),
            P::I8 | P::I16 | P::I32 | P::I64 | P::Isize => format!("Arg::I({name} as i64)"),
            P::F32 => format!("Arg::F32({name}.to_bits())"),
            P::F64 => format!("Arg::F64({name}.to_bits())"),
            P::Bool => format!("Arg::B({name})"),
            P::Str => format!("Arg::S({name}.as_bytes().to_vec())"),
            P::Blk => format!("Arg::Blk({name}.to_vec())"),
        }
    }
}

/// What a handler returns.  The body is emitted from this.
#[derive(Clone, Copy, PartialEq, Debug)]
enum R {
    Unit,     // Result<(), Error>, Ok(())
    Hid,      // Result<u32, Error>, Ok(hid)
    EchoStr,  // (&str) -> &str
    EchoU32,  // (u32) -> u32
    Idn,      // -> &str fixed identification string
    Fail,     // (i16) -> Err(Custom(code, text)), declared return ()
    FailQ,    // (i16) -> Err(Custom(code, text)), declared return u32
    // response zoo: argument(s) carry the value to return
    ZU8, ZI8, ZU16, ZI16, ZU32, ZI32, ZU64, ZI64, ZUsize, ZIsize,
    ZF32,     // (u32 bits) -> f32
    ZF64,     // (u64 bits) -> f64
    ZBool,
    ZStr,     // (&str) -> &str
    ZStrB,    // (&[u8]) -> &str (utf8 or Custom error)
    ZHStr,    // (&str) -> heapless::String<64>
    ZHStrB,   // (&[u8]) -> heapless::String<64>
    ZSStr,    // (&str) -> String            [std only]
    ZSStrB,   // (&[u8]) -> String           [std only]
    ZChar,    // (&str) -> Characters
    ZBlk,     // (&[u8]) -> Arbitrary
    ZErr,     // (i16) -> Error as value
    ZTup2,    // (i32, u64 bits) -> (i32, f64)
    ZTup3,    // (&str, bool, u8) -> (&str, bool, u8)
    ZTup4,    // (i64, u32 bits, &[u8], &str) -> (i64, f32, Arbitrary, &str)
    ZNest,    // (u8, bool, i16, &str) -> ((u8,bool),(i16,&str))
    ZSliceI16, // (&[u8]) -> &[i16]  (LE pairs)
    ZHVecU32, // (&[u8]) -> heapless::Vec<u32, 8> (LE quads)
    ZHVecF64, // (&[u8]) -> heapless::Vec<f64, 4> (LE octets, bits)
    ZHVecStr, // (&str, &str) -> heapless::Vec<heapless::String<32>, 4>
    ZUnitQ,   // query returning ()
    ZHVecBlk, // (&[u8], &[u8], &[u8]) -> heapless::Vec<Arbitrary, 4>
    ZTupSlice, // (u8, &[u8]) -> (usize, &[i16])
    Big,      // (u8) -> u32, keeps a 6000 byte array alive across its suspension point
}

#[derive(Clone, Debug)]
struct Part {
    decl: String, // as declared, mixed case, without brackets
    optional: bool,
}

#[derive(Clone, Debug)]
struct Decl {
    parts: Vec<Part>,
    query: bool,
    params: Vec<P>,
    ret: R,
    is_async: bool,
    std_only: bool,
}

impl Decl {
    fn cmd(&self) -> String {
        let mut s = String::new();
        for (i, p) in self.parts.iter().enumerate() {
            if i > 0 {
                s.push(':');
            }
            if p.optional {
                write!(s, "[{}]", p.decl).unwrap();
            } else {
                s.push_str(&p.decl);
            }
        }
        if self.query {
            s.push('?');
        }
        s
    }
    fn short(p: &Part) -> String {
        p.decl.chars().filter(|c| !c.is_lowercase()).collect()
    }
    fn long(p: &Part) -> String {
        p.decl.to_uppercase()
    }
    /// All spellings, mirroring what the macro is documented to accept.
    fn paths(&self) -> Vec<Vec<String>> {
        let mut paths: Vec<Vec<String>> = vec![vec![]];
        for p in &self.parts {
            let mut n = Vec::new();
            for path in &paths {
                let mut l = path.clone();
                l.push(Self::long(p));
                n.push(l);
                if Self::short(p) != Self::long(p) {
                    let mut s = path.clone();
                    s.push(Self::short(p));
                    n.push(s);
                }
                if p.optional {
                    n.push(path.clone());
                }
            }
            paths = n;
        }
        paths
    }
}

fn d(cmd: &str, params: &[P], ret: R, is_async: bool) -> Decl {
    let (body, query) = match cmd.strip_suffix('?') {
        Some(b) => (b, true),
        None => (cmd, false),
    };
    let parts = body
        .split(':')
        .map(|p| {
            if p.starts_with('[') {
                Part { decl: p[1..p.len() - 1].to_string(), optional: true }
            } else {
                Part { decl: p.to_string(), optional: false }
            }
        })
        .collect();
    Decl { parts, query, params: params.to_vec(), ret, is_async, std_only: false }
}

struct Rng(u64);
impl Rng {
    fn next(&mut self) -> u64 {
        self.0 = self.0.wrapping_add(0x9E3779B97F4A7C15);
        let mut z = self.0;
        z = (z ^ (z >> 30)).wrapping_mul(0xBF58476D1CE4E5B9);
        z = (z ^ (z >> 27)).wrapping_mul(0x94D049BB133111EB);
        z ^ (z >> 31)
    }
    fn below(&mut self, n: usize) -> usize {
        (self.next() % n as u64) as usize
    }
    fn chance(&mut self, num: u64, den: u64) -> bool {
        self.next() % den < num
    }
}

/// Removes declarations that collide (same spelling, same kind) with an
/// earlier one, and declarations whose only spelling is empty.
fn dedup(decls: Vec<Decl>) -> Vec<Decl> {
    let mut seen: BTreeMap<(Vec<String>, bool), ()> = BTreeMap::new();
    let mut out = Vec::new();
    'outer: for dc in decls {
        let paths = dc.paths();
        for p in &paths {
            if p.is_empty() || seen.contains_key(&(p.clone(), dc.query)) {
                continue 'outer;
            }
        }
        // a path may also collide with itself through optional nodes
        let mut own = BTreeMap::new();
        for p in &paths {
            if own.insert(p.clone(), ()).is_some() {
                continue 'outer;
            }
        }
        for p in paths {
            seen.insert((p, dc.query), ());
        }
        out.push(dc);
    }
    out
}

fn tree_hand() -> Vec<Decl> {
    use P::*;
    vec![
        d("*RST", &[], R::Unit, true),
        d("*IDN?", &[], R::Idn, true),
        d("*OPC?", &[], R::Hid, false),
        d("*CLS", &[], R::Unit, false),
        d("*ESE", &[U8], R::Unit, true),
        d("*ESE?", &[], R::Hid, true),
        d("*SRE", &[U8, Bool], R::Unit, false),
        d("FOO", &[], R::Unit, true),
        d("BAR", &[], R::Unit, false),
        d("BAZ?", &[], R::Hid, true),
        d("BAZ", &[], R::Unit, true),
        d("NUM", &[U8], R::Unit, true),
        d("TWO", &[I16, Bool], R::Unit, true),
        d("STR", &[Str], R::Unit, true),
        d("BLK", &[Blk], R::Unit, true),
        d("ECHO?", &[Str], R::EchoStr, true),
        d("FAIL", &[I16], R::Fail, true),
        d("FAIL?", &[I16], R::FailQ, true),
        d("SYSTem:FOO", &[], R::Unit, true),
        d("SYSTem:BAR", &[], R::Unit, true),
        d("SYSTem:BAZ?", &[], R::Hid, true),
        d("SYSTem:NUM", &[U32], R::Unit, false),
        d("SYSTem:STR", &[Str], R::Unit, true),
        d("SYSTem:BLK", &[Blk], R::Unit, true),
        d("SYSTem:ECHO?", &[U32], R::EchoU32, true),
        d("SYSTem:FAIL", &[I16], R::Fail, true),
        d("SYSTem:MIX", &[Str, Blk, F64], R::Unit, true),
        d("SYSTem:SUB:FOO", &[], R::Unit, true),
        d("SYSTem:SUB:BAR", &[], R::Unit, true),
        d("SYSTem:SUB:BAZ?", &[], R::Hid, false),
        d("SYSTem:SUB:STR", &[Str], R::Unit, true),
        d("SYSTem:SUB:BLK", &[Blk], R::Unit, true),
        d("SYSTem:SUB:SYSTem:FOO", &[], R::Unit, true),
        d("SYSTem:SUB:SYSTem:BAR", &[], R::Unit, true),
        d("SUB:FOO", &[], R::Unit, true),
        d("SUB:BAR", &[], R::Unit, true),
        d("SUB:SYSTem:FOO", &[], R::Unit, true),
        d("SUB:SYSTem:BAZ?", &[], R::Hid, true),
        d("CONFigure:[VOLTage]:FOO", &[], R::Unit, true),
        d("CONFigure:[VOLTage]:BAR", &[F32], R::Unit, true),
        d("CONFigure:[VOLTage]:BAZ?", &[], R::Hid, true),
        d("CONFigure:CURRent:[LEAF]", &[], R::Unit, true),
        d("CONFigure:CURRent:[LEAF]?", &[], R::Hid, true),
        d("[MEASure]:VOLTage:FOO", &[], R::Unit, true),
        d("[MEASure]:VOLTage:STR", &[Str, Str], R::Unit, true),
        d("[MEASure]:VOLTage:BLK", &[U8, Blk], R::Unit, true),
        // a handler with exactly MAX_ARGS parameters, and mnemonics longer than the
        // twelve characters SCPI recommends (the macro accepts them)
        d("TEN", &[U8, U8, U8, U8, U8, U8, U8, U8, U8, U8], R::Unit, true),
        d("SYSTem:TEN?", &[I16, I16, I16, I16, I16, I16, I16, I16, I16, Bool], R::Hid, true),
        d("SYSTem:BIG?", &[U8], R::Big, true),
        // a command (not a query) whose handler nevertheless returns data
        d("SYSTem:DATA", &[], R::Hid, true),
        d("EXTRAordinarilyLONG:FOO", &[], R::Unit, true),
        d("EXTRAordinarilyLONG:BAZ?", &[], R::Hid, true),
        d("SYSTem:LONGmnemonic17:BAR", &[], R::Unit, false),
        // a sibling that shares its first twelve characters with EXTRAordinarilyLONG
        d("EXTRAORDINARYother:BAR", &[], R::Unit, true),
        d("EXTRAORDINARYother:BAZ?", &[], R::Hid, true),
        // two optional subsystems with a same-named child whose own children differ
        d("[SENSe]:FREQuency:RANGe", &[F64], R::Unit, true),
        d("[SENSe]:FREQuency:RANGe?", &[], R::Hid, true),
        d("[SOURce]:FREQuency:CW", &[F64], R::Unit, true),
        d("[SOURce]:FREQuency:CW?", &[], R::Hid, true),
        // a deep chain (eleven levels) with the same leaves at several depths
        d("DEEP:A:B1:X_Y:SUB:LEAF:NUM:STATus:CURRent:VOLTage:FOO", &[], R::Unit, true),
        d("DEEP:A:B1:X_Y:SUB:LEAF:NUM:STATus:CURRent:VOLTage:BAR", &[U8], R::Unit, true),
        d("DEEP:A:B1:X_Y:SUB:LEAF:NUM:STATus:CURRent:VOLTage:BAZ?", &[], R::Hid, true),
        d("DEEP:A:B1:X_Y:SUB:LEAF:NUM:STATus:CURRent:FOO", &[], R::Unit, true),
        d("DEEP:A:B1:X_Y:SUB:LEAF:NUM:STATus:CURRent:BAZ?", &[], R::Hid, true),
        d("DEEP:A:B1:X_Y:SUB:LEAF:NUM:STATus:FOO", &[], R::Unit, true),
        d("DEEP:A:B1:X_Y:SUB:LEAF:NUM:STATus:BAR", &[U8], R::Unit, true),
        d("DEEP:A:B1:X_Y:SUB:LEAF:NUM:FOO", &[], R::Unit, false),
        d("DEEP:A:B1:X_Y:SUB:LEAF:NUM:BAZ?", &[], R::Hid, true),
    ]
}

const POOL: &[&str] = &[
    "FOO", "BAR", "BAZ", "SYSTem", "SUB", "LEAF", "CONFigure", "MEASure", "STR", "BLK",
    "VOLTage", "CURRent", "A", "B1", "X_Y", "STATus", "NUM",
];
const PTYPES: &[P] = &[
    P::U8, P::I16, P::U32, P::I64, P::Usize, P::F32, P::F64, P::Bool, P::Str, P::Blk,
];

fn tree_random(rng: &mut Rng) -> Vec<Decl> {
    let mut dirs: Vec<Vec<Part>> = vec![vec![]];
    let n_dirs = 4 + rng.below(5);
    for _ in 0..n_dirs {
        let base = dirs[rng.below(dirs.len())].clone();
        if base.len() >= 3 {
            continue;
        }
        let m = POOL[rng.below(8)]; // directory names from the first 8
        let mut nd = base.clone();
        nd.push(Part { decl: m.to_string(), optional: rng.chance(1, 5) });
        if !dirs.iter().any(|x| {
            x.len() == nd.len() && x.iter().zip(&nd).all(|(a, b)| a.decl == b.decl)
        }) {
            dirs.push(nd);
        }
    }
    let mut decls = vec![
        d("*RST", &[], R::Unit, true),
        d("*IDN?", &[], R::Idn, false),
        d("*OPC?", &[], R::Hid, true),
        d("*ESE", &[P::U8], R::Unit, true),
        d("*ESE?", &[], R::Hid, false),
        d("FAIL", &[P::I16], R::Fail, true),
        d("FAIL?", &[P::I16], R::FailQ, false),
        d("ECHO?", &[P::Str], R::EchoStr, true),
    ];
    for dir in &dirs {
        let n_leaves = 2 + rng.below(4);
        for _ in 0..n_leaves {
            let m = POOL[rng.below(POOL.len())];
            let mut parts = dir.clone();
            let leaf_optional = !dir.is_empty() && rng.chance(1, 10);
            parts.push(Part { decl: m.to_string(), optional: leaf_optional });
            let kind = rng.below(4); // 0,1: cmd  2: query  3: both
            let is_async = rng.chance(3, 4);
            if kind != 2 {
                let np = match m {
                    "STR" => 1,
                    "BLK" => 1,
                    _ => [0, 0, 0, 1, 1, 2, 3][rng.below(7)],
                };
                let mut params = Vec::new();
                for i in 0..np {
                    let t = match (m, i) {
                        ("STR", 0) => P::Str,
                        ("BLK", 0) => P::Blk,
                        _ => PTYPES[rng.below(PTYPES.len())],
                    };
                    params.push(t);
                }
                decls.push(Decl {
                    parts: parts.clone(),
                    query: false,
                    params,
                    ret: R::Unit,
                    is_async,
                    std_only: false,
                });
            }
            if kind >= 2 {
                let (params, ret) = match rng.below(4) {
                    0 => (vec![P::Str], R::EchoStr),
                    1 => (vec![P::U32], R::EchoU32),
                    _ => (vec![], R::Hid),
                };
                decls.push(Decl {
                    parts: parts.clone(),
                    query: true,
                    params,
                    ret,
                    is_async: rng.chance(3, 4),
                    std_only: false,
                });
            }
        }
        if !dir.is_empty() && rng.chance(1, 3) {
            let mut parts = dir.clone();
            parts.push(Part { decl: "FAIL".into(), optional: false });
            decls.push(Decl {
                parts,
                query: false,
                params: vec![P::I16],
                ret: R::Fail,
                is_async: true,
                std_only: false,
            });
        }
    }
    decls
}

fn zoo() -> Vec<Decl> {
    use P::*;
    let mut v = vec![
        d("ZOO:U8?", &[U8], R::ZU8, true),
        d("ZOO:I8?", &[I8], R::ZI8, false),
        d("ZOO:U16?", &[U16], R::ZU16, true),
        d("ZOO:I16?", &[I16], R::ZI16, true),
        d("ZOO:U32?", &[U32], R::ZU32, false),
        d("ZOO:I32?", &[I32], R::ZI32, true),
        d("ZOO:U64?", &[U64], R::ZU64, true),
        d("ZOO:I64?", &[I64], R::ZI64, true),
        d("ZOO:USIZe?", &[Usize], R::ZUsize, true),
        d("ZOO:ISIZe?", &[Isize], R::ZIsize, true),
        d("ZOO:F32?", &[U32], R::ZF32, true),
        d("ZOO:F64?", &[U64], R::ZF64, true),
        d("ZOO:BOOL?", &[Bool], R::ZBool, true),
        d("ZOO:STR?", &[Str], R::ZStr, true),
        d("ZOO:STRB?", &[Blk], R::ZStrB, true),
        d("ZOO:HSTR?", &[Str], R::ZHStr, true),
        d("ZOO:HSTRB?", &[Blk], R::ZHStrB, false),
        d("ZOO:SSTR?", &[Str], R::ZSStr, true),
        d("ZOO:SSTRB?", &[Blk], R::ZSStrB, true),
        d("ZOO:CHAR?", &[Str], R::ZChar, true),
        d("ZOO:BLK?", &[Blk], R::ZBlk, true),
        d("ZOO:ERR?", &[I16], R::ZErr, true),
        d("ZOO:TUP2?", &[I32, U64], R::ZTup2, true),
        d("ZOO:TUP3?", &[Str, Bool, U8], R::ZTup3, true),
        d("ZOO:TUP4?", &[I64, U32, Blk, Str], R::ZTup4, true),
        d("ZOO:NEST?", &[U8, Bool, I16, Str], R::ZNest, true),
        d("ZOO:SLI?", &[Blk], R::ZSliceI16, true),
        d("ZOO:HVU?", &[Blk], R::ZHVecU32, true),
        d("ZOO:HVF?", &[Blk], R::ZHVecF64, true),
        d("ZOO:HVS?", &[Str, Str], R::ZHVecStr, true),
        d("ZOO:HVB?", &[Blk, Blk, Blk], R::ZHVecBlk, true),
        d("ZOO:TSL?", &[U8, Blk], R::ZTupSlice, true),
        d("ZOO:NONE?", &[], R::ZUnitQ, true),
        d("ZOO:NONE", &[], R::Unit, true),
        d("ZOO:CMD", &[U8], R::Unit, true),
        d("ZOO:FAIL?", &[I16], R::FailQ, true),
        d("ZOO:FAIL", &[I16], R::Fail, true),
        d("*IDN?", &[], R::Idn, true),
        d("*RST", &[], R::Unit, true),
        d("HID?", &[], R::Hid, true),
    ];
    for x in v.iter_mut() {
        if matches!(x.ret, R::ZSStr | R::ZSStrB) {
            x.std_only = true;
        }
    }
    // std-only declarations go last (stable handler ids) and are left out of
    // builds of the default, no_std, configuration
    let (mut a, b): (Vec<Decl>, Vec<Decl>) = v.into_iter().partition(|x| !x.std_only);
    if std::env::var("CARGO_FEATURE_STD").is_ok() {
        a.extend(b);
    }
    a
}

fn queue_hand() -> Vec<Decl> {
    use P::*;
    vec![
        d("*RST", &[], R::Unit, true),
        d("*IDN?", &[], R::Idn, true),
        d("FOO", &[], R::Unit, true),
        d("BAR?", &[], R::Hid, true),
        d("NUM", &[U8], R::Unit, true),
        d("STR", &[Str], R::Unit, true),
        d("BLK", &[Blk], R::Unit, false),
        d("ECHO?", &[Str], R::EchoStr, true),
        d("FAIL", &[I16], R::Fail, true),
        d("FAIL?", &[I16], R::FailQ, true),
        d("SYSTem:FOO", &[], R::Unit, true),
        d("SYSTem:BAR?", &[], R::Hid, true),
        d("SYSTem:FAIL", &[I16], R::Fail, true),
        d("SYSTem:SUB:FOO", &[], R::Unit, true),
        d("SYSTem:SUB:NUM", &[I16, Bool], R::Unit, true),
    ]
}

fn ret_type(r: R) -> &'static str {
    match r {
        R::Unit | R::Fail | R::ZUnitQ => "()",
        R::Hid | R::EchoU32 | R::FailQ | R::ZU32 | R::Big => "u32",
        R::EchoStr | R::Idn | R::ZStr | R::ZStrB => "&str",
        R::ZU8 => "u8",
        R::ZI8 => "i8",
        R::ZU16 => "u16",
        R::ZI16 => "i16",
        R::ZI32 => "i32",
        R::ZU64 => "u64",
        R::ZI64 => "i64",
        R::ZUsize => "usize",
        R::ZIsize => "isize",
        R::ZF32 => "f32",
        R::ZF64 => "f64",
        R::ZBool => "bool",
        R::ZHStr | R::ZHStrB => "heapless::String<64>",
        R::ZSStr | R::ZSStrB => "String",
        R::ZChar => "Characters<'_>",
        R::ZBlk => "Arbitrary<'_>",
        R::ZErr => "Error",
        R::ZTup2 => "(i32, f64)",
        R::ZTup3 => "(&str, bool, u8)",
        R::ZTup4 => "(i64, f32, Arbitrary<'_>, &str)",
        R::ZNest => "((u8, bool), (i16, &str))",
        R::ZSliceI16 => "&[i16]",
        R::ZHVecU32 => "heapless::Vec<u32, 8>",
        R::ZHVecF64 => "heapless::Vec<f64, 4>",
        R::ZHVecStr => "heapless::Vec<heapless::String<32>, 4>",
        R::ZHVecBlk => "heapless::Vec<Arbitrary<'_>, 4>",
        R::ZTupSlice => "(usize, &[i16])",
    }
}

/// Body expression computing `r: Result<ret, Error>`; runs with the harness
/// guard active (may allocate).  `self.sbuf`, `self.sbuf2`, `self.bbuf`,
/// `self.ibuf` are scratch owned by the interface object.
fn ret_body(r: R, hid: usize) -> String {
    match r {
        R::Unit | R::ZUnitQ => "Ok(())".into(),
        R::ZHVecBlk => "{ self.bbuf.clear(); self.bbuf.extend_from_slice(a0); let l0 = self.bbuf.len(); self.bbuf.extend_from_slice(a1); let l1 = self.bbuf.len(); self.bbuf.extend_from_slice(a2); let mut v = heapless::Vec::<Arbitrary<'_>, 4>::new(); let _ = v.push(Arbitrary(&self.bbuf[..l0])); let _ = v.push(Arbitrary(&self.bbuf[l0..l1])); let _ = v.push(Arbitrary(&self.bbuf[l1..])); Ok(v) }".into(),
        R::ZTupSlice => "{ self.ibuf.clear(); for c in a1.chunks_exact(2) { self.ibuf.push(i16::from_le_bytes([c[0], c[1]])); } Ok((a0 as usize, &self.ibuf[..])) }".into(),
        R::Big => "Ok(big.iter().map(|x| *x as u32).sum::<u32>())".into(),
        R::Hid => format!("Ok({hid}u32)"),
        R::EchoStr | R::ZStr => "{ self.sbuf.clear(); self.sbuf.push_str(a0); Ok(self.sbuf.as_str()) }".into(),
        R::EchoU32 | R::ZU32 | R::ZU8 | R::ZI8 | R::ZU16 | R::ZI16 | R::ZI32 | R::ZU64 | R::ZI64
        | R::ZUsize | R::ZIsize | R::ZBool => "Ok(a0)".into(),
        R::Idn => "Ok(simcore::world::IDN)".into(),
        R::Fail | R::FailQ => "Err(simcore::world::custom_error(a0))".into(),
        R::ZF32 => "Ok(f32::from_bits(a0))".into(),
        R::ZF64 => "Ok(f64::from_bits(a0))".into(),
        R::ZStrB => "match core::str::from_utf8(a0) { Ok(s) => { self.sbuf.clear(); self.sbuf.push_str(s); Ok(self.sbuf.as_str()) } Err(_) => Err(simcore::world::custom_error(-1)) }".into(),
        R::ZHStr => "{ let mut s = heapless::String::<64>::new(); match s.push_str(a0) { Ok(()) => Ok(s), Err(_) => Err(simcore::world::custom_error(-2)) } }".into(),
        R::ZHStrB => "match core::str::from_utf8(a0) { Ok(x) => { let mut s = heapless::String::<64>::new(); match s.push_str(x) { Ok(()) => Ok(s), Err(_) => Err(simcore::world::custom_error(-2)) } } Err(_) => Err(simcore::world::custom_error(-1)) }".into(),
        R::ZSStr => "Ok(String::from(a0))".into(),
        R::ZSStrB => "match core::str::from_utf8(a0) { Ok(x) => Ok(String::from(x)), Err(_) => Err(simcore::world::custom_error(-1)) }".into(),
        R::ZChar => "{ self.sbuf.clear(); self.sbuf.push_str(a0); Ok(Characters(self.sbuf.as_str())) }".into(),
        R::ZBlk => "{ self.bbuf.clear(); self.bbuf.extend_from_slice(a0); Ok(Arbitrary(&self.bbuf)) }".into(),
        R::ZErr => "Ok(simcore::world::error_value(a0))".into(),
        R::ZTup2 => "Ok((a0, f64::from_bits(a1)))".into(),
        R::ZTup3 => "{ self.sbuf.clear(); self.sbuf.push_str(a0); Ok((self.sbuf.as_str(), a1, a2)) }".into(),
        R::ZTup4 => "{ self.sbuf.clear(); self.sbuf.push_str(a3); self.bbuf.clear(); self.bbuf.extend_from_slice(a2); Ok((a0, f32::from_bits(a1), Arbitrary(&self.bbuf), self.sbuf.as_str())) }".into(),
        R::ZNest => "{ self.sbuf.clear(); self.sbuf.push_str(a3); Ok(((a0, a1), (a2, self.sbuf.as_str()))) }".into(),
        R::ZSliceI16 => "{ self.ibuf.clear(); for c in a0.chunks_exact(2) { self.ibuf.push(i16::from_le_bytes([c[0], c[1]])); } Ok(&self.ibuf[..]) }".into(),
        R::ZHVecU32 => "{ let mut v = heapless::Vec::<u32, 8>::new(); for c in a0.chunks_exact(4).take(8) { let _ = v.push(u32::from_le_bytes([c[0], c[1], c[2], c[3]])); } Ok(v) }".into(),
        R::ZHVecF64 => "{ let mut v = heapless::Vec::<f64, 4>::new(); for c in a0.chunks_exact(8).take(4) { let mut b = [0u8; 8]; b.copy_from_slice(c); let _ = v.push(f64::from_bits(u64::from_le_bytes(b))); } Ok(v) }".into(),
        R::ZHVecStr => "{ let mut v = heapless::Vec::<heapless::String<32>, 4>::new(); let mut bad = false; for x in [a0, a1] { let mut s = heapless::String::<32>::new(); if s.push_str(x).is_err() { bad = true; } let _ = v.push(s); } if bad { Err(simcore::world::custom_error(-2)) } else { Ok(v) } }".into(),
    }
}

pub struct Iface {
    pub name: String,
    pub family: &'static str, // "tree" | "zoo" | "queue"
    decls: Vec<Decl>,
}

fn emit_iface(out: &mut String, spec: &mut String, idx: usize, it: &Iface, ns: &[usize], caps: &[usize]) {
    let queue = it.family == "queue";
    let generics = if queue { "<const CAP: usize>" } else { "" };
    let ty = if queue { "I<CAP>" } else { "I" };
    writeln!(out, "pub mod {} {{", it.name).unwrap();
    writeln!(out, "    #![allow(unused_variables, unused_mut, clippy::all)]").unwrap();
    writeln!(out, "    use std::rc::Rc;").unwrap();
    writeln!(out, "    #[allow(unused_imports)] use microscpi::{{self as scpi, Error, Characters, Arbitrary}};").unwrap();
    writeln!(out, "    #[allow(unused_imports)] use simcore::world::{{World, Arg, RecQueue}};").unwrap();
    writeln!(out, "    use simcore::alloc::Harness;").unwrap();
    if queue {
        writeln!(out, "    pub struct I<const CAP: usize> {{ pub w: Rc<World>, pub q: RecQueue<CAP>, pub sbuf: String, pub bbuf: Vec<u8>, pub ibuf: Vec<i16> }}").unwrap();
        writeln!(out, "    impl<const CAP: usize> scpi::ErrorCommands for I<CAP> {{ fn error_queue(&mut self) -> &mut impl scpi::ErrorQueue {{ &mut self.q }} }}").unwrap();
        writeln!(out, "    impl<const CAP: usize> scpi::StandardCommands for I<CAP> {{}}").unwrap();
        writeln!(out, "    impl<const CAP: usize> simcore::world::SimIface for I<CAP> {{ fn new(w: Rc<World>) -> Self {{ I {{ q: RecQueue::new(w.clone()), w, sbuf: String::new(), bbuf: Vec::new(), ibuf: Vec::new() }} }} }}").unwrap();
        writeln!(out, "    #[scpi::interface(StandardCommands, ErrorCommands)]").unwrap();
    } else {
        writeln!(out, "    pub struct I {{ pub w: Rc<World>, pub sbuf: String, pub bbuf: Vec<u8>, pub ibuf: Vec<i16> }}").unwrap();
        writeln!(out, "    impl scpi::ErrorHandler for I {{ fn handle_error(&mut self, e: Error) {{ self.w.on_error(e) }} }}").unwrap();
        writeln!(out, "    impl simcore::world::SimIface for I {{ fn new(w: Rc<World>) -> Self {{ I {{ w, sbuf: String::new(), bbuf: Vec::new(), ibuf: Vec::new() }} }} }}").unwrap();
        writeln!(out, "    #[scpi::interface]").unwrap();
    }
    writeln!(out, "    impl{generics} {ty} {{").unwrap();
    // items that are not SCPI handlers: the macro must leave them alone and must not let
    // them influence the numbering of the handlers
    writeln!(out, "        pub const HELPER_CONST: u32 = 7;").unwrap();
    writeln!(out, "        pub fn helper_a(&self) -> u32 {{ Self::HELPER_CONST }}").unwrap();
    writeln!(out, "        pub fn helper_b(&self, x: u32) -> u32 {{ x.wrapping_add(self.helper_a()) }}").unwrap();
    for (hid, dc) in it.decls.iter().enumerate() {
        if hid == 2 {
            writeln!(out, "        pub fn helper_c(&self) -> bool {{ self.helper_b(1) > 0 }}").unwrap();
        }
        let mut sig = String::new();
        let mut log = String::new();
        for (i, p) in dc.params.iter().enumerate() {
            write!(sig, ", a{i}: {}", p.rust()).unwrap();
            write!(log, "{}, ", p.log(&format!("a{i}"))).unwrap();
        }
        let a = if dc.is_async { "async " } else { "" };
        writeln!(out, "        #[scpi(cmd = \"{}\")]", dc.cmd()).unwrap();
        writeln!(out, "        pub {a}fn h{hid}(&mut self{sig}) -> Result<{}, Error> {{", ret_type(dc.ret)).unwrap();
        writeln!(out, "            {{ let _g = Harness::enter(); self.w.enter({hid}, vec![{log}]); }}").unwrap();
        if dc.ret == R::Big {
            // a large local that lives across the suspension point makes the future of this
            // handler (and with it the generated execute_command future) larger than 4 KiB
            writeln!(out, "            let big = [a0; 6000];").unwrap();
        }
        if dc.is_async {
            writeln!(out, "            self.w.suspend_point().await;").unwrap();
        }
        writeln!(out, "            let _g = Harness::enter();").unwrap();
        writeln!(out, "            let r: Result<{}, Error> = {};", ret_type(dc.ret), ret_body(dc.ret, hid)).unwrap();
        writeln!(out, "            self.w.exit({hid}, r.is_ok());").unwrap();
        writeln!(out, "            r").unwrap();
        writeln!(out, "        }}").unwrap();
    }
    writeln!(out, "    }}").unwrap();
    writeln!(out, "}}").unwrap();

    // spec
    writeln!(spec, "    IfaceSpec {{ index: {idx}, name: \"{}\", family: Family::{}, ns: &{:?}, caps: &{:?}, decls: &[", it.name, match it.family { "tree" => "Tree", "zoo" => "Zoo", _ => "Queue" }, ns, caps).unwrap();
    let mut all = it.decls.clone();
    let n_user = all.len();
    if queue {
        all.push(d("SYSTem:VERSion?", &[], R::Unit, false));
        all.push(d("SYSTem:ERRor:[NEXT]?", &[], R::Unit, false));
        all.push(d("SYSTem:ERRor:COUNt?", &[], R::Unit, false));
    }
    for (hid, dc) in all.iter().enumerate() {
        let std_role = if hid >= n_user {
            ["StdRole::Version", "StdRole::ErrNext", "StdRole::ErrCount"][hid - n_user]
        } else {
            "StdRole::User"
        };
        write!(spec, "        DeclSpec {{ hid: {hid}, parts: &[").unwrap();
        for p in &dc.parts {
            write!(spec, "PartSpec {{ short: \"{}\", long: \"{}\", optional: {} }}, ", Decl::short(p), Decl::long(p), p.optional).unwrap();
        }
        write!(spec, "], query: {}, params: &[", dc.query).unwrap();
        for p in &dc.params {
            write!(spec, "P::{:?}, ", p).unwrap();
        }
        writeln!(spec, "], ret: R::{:?}, is_async: {}, std_only: {}, role: {} }},", dc.ret, dc.is_async, dc.std_only, std_role).unwrap();
    }
    writeln!(spec, "    ] }},").unwrap();
}


pub const DEFAULT_TREE_SEED: u64 = 20260926;

pub fn tree_seed() -> u64 {
    println!("cargo:rerun-if-env-changed=SIM_TREE_SEED");
    std::env::var("SIM_TREE_SEED").ok().and_then(|s| s.parse().ok()).unwrap_or(DEFAULT_TREE_SEED)
}

pub fn all_ifaces(seed: u64) -> Vec<Iface> {
    let mut rng = Rng(seed);
    let mut ifaces = vec![Iface { name: "t0".into(), family: "tree", decls: dedup(tree_hand()) }];
    for k in 1..=3 {
        ifaces.push(Iface { name: format!("t{k}"), family: "tree", decls: dedup(tree_random(&mut rng)) });
    }
    ifaces.push(Iface { name: "zoo".into(), family: "zoo", decls: dedup(zoo()) });
    ifaces.push(Iface { name: "q0".into(), family: "queue", decls: dedup(queue_hand()) });
    ifaces
}

/// One compilation unit: an interface, the queue capacities and the command
/// buffer sizes it is instantiated for.  Units are separate crates so that
/// cargo builds them in parallel.
pub struct UnitDef {
    pub pkg: &'static str,
    pub iface: &'static str,
    pub caps: &'static [usize],
    pub ns: &'static [usize],
}

const N_LO: &[usize] = &[1, 2, 3, 4, 5, 6, 7, 8, 9, 12, 15, 16];
const N_HI: &[usize] = &[17, 24, 31, 32, 33, 47, 48, 64, 65, 128, 256, 1024];
const N_MORE: &[usize] = &[10, 11, 13, 14, 20, 23, 40, 63, 100, 512];
const N_RED: &[usize] = &[1, 2, 3, 5, 8, 9, 16, 17, 32, 33, 64, 128];
const N_ZOO: &[usize] = &[4, 8, 16, 32, 64, 128, 256, 1024];
const N_Q: &[usize] = &[16, 32, 48, 64, 128, 256];
const N_Q10: &[usize] = &[8, 16, 32, 48, 64, 128, 256, 1024];

pub fn units() -> Vec<UnitDef> {
    vec![
        UnitDef { pkg: "u_t0a", iface: "t0", caps: &[0], ns: N_LO },
        UnitDef { pkg: "u_t0b", iface: "t0", caps: &[0], ns: N_HI },
        UnitDef { pkg: "u_t0c", iface: "t0", caps: &[0], ns: N_MORE },
        UnitDef { pkg: "u_t1a", iface: "t1", caps: &[0], ns: N_LO },
        UnitDef { pkg: "u_t1b", iface: "t1", caps: &[0], ns: N_HI },
        UnitDef { pkg: "u_t2", iface: "t2", caps: &[0], ns: N_RED },
        UnitDef { pkg: "u_t3", iface: "t3", caps: &[0], ns: N_RED },
        UnitDef { pkg: "u_zoo", iface: "zoo", caps: &[0], ns: N_ZOO },
        UnitDef { pkg: "u_q0a", iface: "q0", caps: &[1, 2], ns: N_Q },
        UnitDef { pkg: "u_q0b", iface: "q0", caps: &[3, 4], ns: N_Q },
        UnitDef { pkg: "u_q0c", iface: "q0", caps: &[10], ns: N_Q10 },
    ]
}

/// Source of one unit crate: the interface module and its `execute` entry.
pub fn emit_unit(pkg: &str, seed: u64) -> String {
    let ifaces = all_ifaces(seed);
    let units = units();
    let u = units.iter().find(|u| u.pkg == pkg).unwrap_or_else(|| panic!("unknown unit {pkg}"));
    let (idx, it) = ifaces.iter().enumerate().find(|(_, i)| i.name == u.iface).unwrap();
    let mut out = String::new();
    let mut spec = String::new();
    writeln!(out, "// @generated by ifgen for unit {pkg} (SIM_TREE_SEED={seed})").unwrap();
    emit_iface(&mut out, &mut spec, idx, it, &[], &[]);
    writeln!(out, "pub fn execute(ex: &simcore::exec::Exec) -> Option<simcore::exec::Out> {{").unwrap();
    writeln!(out, "    if ex.iface != {idx} {{ return None; }}").unwrap();
    if it.family == "queue" {
        writeln!(out, "    match (ex.cap, ex.n) {{").unwrap();
        for c in u.caps {
            for n in u.ns {
                writeln!(out, "        ({c}, {n}) => Some(simcore::exec::drive::<{}::I<{c}>, {n}>(ex)),", it.name).unwrap();
            }
        }
    } else {
        writeln!(out, "    match (0usize, ex.n) {{").unwrap();
        for n in u.ns {
            writeln!(out, "        (_, {n}) => Some(simcore::exec::drive::<{}::I, {n}>(ex)),", it.name).unwrap();
        }
    }
    writeln!(out, "        _ => None,").unwrap();
    writeln!(out, "    }}").unwrap();
    writeln!(out, "}}").unwrap();
    out
}

/// Spec tables for simcore.
pub fn emit_spec(seed: u64) -> String {
    let ifaces = all_ifaces(seed);
    let units = units();
    let mut spec = String::new();
    let mut sink = String::new();
    writeln!(spec, "pub const TREE_SEED: u64 = {seed};").unwrap();
    writeln!(spec, "pub static IFACES: &[IfaceSpec] = &[").unwrap();
    for (idx, it) in ifaces.iter().enumerate() {
        let mut ns: Vec<usize> = Vec::new();
        let mut caps: Vec<usize> = Vec::new();
        for u in units.iter().filter(|u| u.iface == it.name) {
            for &n in u.ns {
                if !ns.contains(&n) {
                    ns.push(n);
                }
            }
            for &c in u.caps {
                if !caps.contains(&c) {
                    caps.push(c);
                }
            }
        }
        // only sizes available for every capacity
        ns.retain(|n| caps.iter().all(|c| units.iter().any(|u| u.iface == it.name && u.caps.contains(c) && u.ns.contains(n))));
        ns.sort();
        caps.sort();
        emit_iface(&mut sink, &mut spec, idx, it, &ns, &caps);
    }
    writeln!(spec, "];").unwrap();
    spec
}

/// Dispatcher for the simctl binary.
pub fn emit_dispatch() -> String {
    let mut out = String::new();
    writeln!(out, "pub fn execute(ex: &simcore::exec::Exec) -> simcore::exec::Out {{").unwrap();
    for u in units() {
        writeln!(out, "    if let Some(o) = {}::execute(ex) {{ return o; }}", u.pkg).unwrap();
    }
    writeln!(out, "    simcore::exec::Out {{ unsupported: true, ..Default::default() }}").unwrap();
    writeln!(out, "}}").unwrap();
    out
}
