//! /verif/KNOWN_FINDINGS.txt: genuine defects that were recorded rather than
//! repaired (`finding:` lines) and repaired ones (`fixed:` lines, which
//! suppress nothing).  Never written at run time.
//!
//!   finding: property=C0x class=<class> [stream-contains=<hex>] [detail-contains=<text>] :: <what fails>
use crate::scenario::{unhex, Scenario};

pub struct Known {
    pub property: String,
    pub class: String,
    pub stream_contains: Option<Vec<u8>>,
    pub detail_contains: Option<String>,
    pub text: String,
}

impl Known {
    pub fn matches(&self, prop: &str, class: &str, sc: &Scenario, detail: &str) -> bool {
        if self.property != prop || self.class != class {
            return false;
        }
        if let Some(n) = &self.stream_contains {
            let s = sc.bytes();
            if n.is_empty() || !s.windows(n.len()).any(|w| w == &n[..]) {
                return false;
            }
        }
        if let Some(d) = &self.detail_contains {
            if !detail.contains(d.as_str()) {
                return false;
            }
        }
        true
    }
}

pub fn load(path: &str) -> Vec<Known> {
    let mut v = Vec::new();
    let text = match std::fs::read_to_string(path) {
        Ok(t) => t,
        Err(_) => return v,
    };
    for line in text.lines() {
        let line = line.trim();
        let rest = match line.strip_prefix("finding:") {
            Some(r) => r.trim(),
            None => continue,
        };
        let (head, what) = rest.split_once("::").unwrap_or((rest, ""));
        let mut k = Known { property: String::new(), class: String::new(), stream_contains: None, detail_contains: None, text: what.trim().to_string() };
        for t in head.split_whitespace() {
            if let Some((a, b)) = t.split_once('=') {
                match a {
                    "property" => k.property = b.to_string(),
                    "class" => k.class = b.to_string(),
                    "stream-contains" => k.stream_contains = unhex(b).ok(),
                    "detail-contains" => k.detail_contains = Some(b.replace('_', " ")),
                    _ => {}
                }
            }
        }
        if !k.property.is_empty() && !k.class.is_empty() {
            v.push(k);
        }
    }
    v
}
