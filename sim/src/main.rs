//! simctl - deterministic simulation of microscpi with fault injection.
//!
//!   simctl check <ID> [--tier quick|thorough] [--budget N] [--workers N] [--out DIR]
//!   simctl replay <file>
//!   simctl digest <ID> [--count N] [--workers N]      (determinism self test)
//!   simctl show <ID> <index>                           (print scenario i of the batch)
use std::process::exit;

mod gen;
mod known;
mod props;
mod runner;
mod scenario;

#[global_allocator]
static GLOBAL: simcore::alloc::CountingAlloc = simcore::alloc::CountingAlloc;

pub mod dispatch {
    include!(concat!(env!("OUT_DIR"), "/dispatch.rs"));
}

use runner::{Prop, Stats, Verdict};
use scenario::Scenario;

fn arg_after<'a>(args: &'a [String], key: &str) -> Option<&'a str> {
    args.iter().position(|a| a == key).and_then(|i| args.get(i + 1)).map(|s| s.as_str())
}

fn verif_seed() -> u64 {
    std::env::var("VERIF_SEED").ok().and_then(|s| s.trim().parse::<u64>().ok()).unwrap_or(20260926)
}

fn main() {
    simcore::install_panic_hook();
    let args: Vec<String> = std::env::args().collect();
    let cmd = args.get(1).map(|s| s.as_str()).unwrap_or("");
    match cmd {
        "check" => cmd_check(&args),
        "replay" => cmd_replay(&args),
        "digest" => cmd_digest(&args),
        "show" => cmd_show(&args),
        "scan" => cmd_scan(&args),
        "exec" => cmd_exec(&args),
        _ => {
            eprintln!("usage: simctl check <ID> [--tier quick|thorough] | replay <file> | digest <ID> | show <ID> <index>");
            exit(2);
        }
    }
}

fn prop_or_die(id: Option<&String>) -> &'static dyn Prop {
    match id.and_then(|i| props::by_id(i)) {
        Some(p) => p,
        None => {
            eprintln!("unknown property {id:?}; claimed: {:?}", props::all().iter().map(|p| p.id()).collect::<Vec<_>>());
            exit(2);
        }
    }
}

fn cmd_check(args: &[String]) {
    let p = prop_or_die(args.get(2));
    let tier = arg_after(args, "--tier").map(|s| s.to_string()).or(std::env::var("VERIF_TIER").ok()).unwrap_or("quick".into());
    let thorough = tier == "thorough";
    let tier = if thorough { "thorough" } else { "quick" };
    let div: u64 = arg_after(args, "--budget-div").and_then(|s| s.parse().ok()).unwrap_or(1).max(1);
    let budget = arg_after(args, "--budget").and_then(|s| s.parse().ok()).unwrap_or(p.budget(thorough) / div);
    let workers = arg_after(args, "--workers").and_then(|s| s.parse().ok()).unwrap_or(16usize).max(1);
    let out = arg_after(args, "--out").unwrap_or("/verif").to_string();
    let seed = verif_seed();
    println!("simctl check {} tier={tier} VERIF_SEED={seed} budget={budget} workers={workers} tree_seed={}", p.id(), simcore::spec::TREE_SEED);

    let known = known::load(&format!("{out}/KNOWN_FINDINGS.txt"));
    let mut res = runner::run_batch(p, seed, thorough, budget, workers, &out);
    let mut violations = 0u64;
    let mut known_hits = 0u64;
    let mut exit_code = 0;

    // one-off obligations
    let mut extra_stats = Stats::default();
    if let Err((class, detail)) = p.extra(&mut extra_stats) {
        violations += 1;
        let path = format!("{out}/replays/{}-extra-{class}.replay", p.id());
        let _ = std::fs::create_dir_all(format!("{out}/replays"));
        let _ = std::fs::write(&path, format!("microscpi-sim-replay v1\n# obligation outside the seeded search\nprop={}\nseed=0\nclass={class}\niface=0\ncap=0\nn=0\nstream=-\nknob extra=1\nend\n", p.id()));
        println!("VIOLATION property={} replay={path}", p.id());
        println!("  class={class}\n  {detail}");
        exit_code = 1;
    }
    for (k, v) in extra_stats.counters {
        *res.stats.counters.entry(k).or_insert(0) += v;
    }

    if let Some((idx, sc, class, detail)) = res.violation.take() {
        println!("violation at scenario index {idx} (seed {}), class={class}; minimising ...", sc.seed);
        // minimisation runs under a time limit (a candidate may hang the library)
        let (tx, rx) = std::sync::mpsc::channel();
        {
            let (sc2, class2) = (sc.clone(), class.clone());
            std::thread::spawn(move || {
                let _ = tx.send(runner::minimise(p, &sc2, &class2));
            });
        }
        let (mut min, evals) = rx.recv_timeout(std::time::Duration::from_secs(120)).unwrap_or((sc.clone(), 0));
        // the interface menu the scenario refers to
        min.set("tree_seed", simcore::spec::TREE_SEED as i64);
        min.class = class.clone();
        let mut st = Stats::default();
        let detail_min = match p.check(&min, &mut st) {
            Verdict::Violation { detail, .. } => detail,
            _ => detail.clone(),
        };
        if let Some(k) = known.iter().find(|k| k.matches(p.id(), &class, &min, &detail_min)) {
            println!("KNOWN-FINDING: property={} {}", p.id(), k.text);
            known_hits += 1;
        } else {
            violations += 1;
            let path = format!("{out}/replays/{}-{}.replay", p.id(), sc.seed);
            let _ = std::fs::create_dir_all(format!("{out}/replays"));
            let mut text = min.to_text();
            text.push_str(&format!("# minimised with {evals} evaluations from scenario index {idx}\n"));
            for l in detail_min.lines() {
                text.push_str(&format!("# {l}\n"));
            }
            if let Err(e) = std::fs::write(&path, text) {
                eprintln!("cannot write replay file {path}: {e}");
                exit(2);
            }
            println!("VIOLATION property={} replay={path}", p.id());
            println!("  class={class}");
            println!("  stream: {}", scenario::show(&min.bytes()));
            println!("  {detail_min}");
            exit_code = 1;
        }
    }

    let total = res.evaluations.max(1);
    let skipped_pct = 100.0 * res.skipped as f64 / total as f64;
    println!(
        "{}: evaluations={} held={} skipped={} ({skipped_pct:.1}%) distinct={} distinct_nontrivial={} states={} wall={:.1}s ({:.0}/s)",
        p.id(),
        res.evaluations,
        res.evaluations - res.skipped - violations.min(1),
        res.skipped,
        res.stats.sigs.len(),
        res.stats.nontrivial_sigs.len(),
        res.stats.states.len(),
        res.wall_s,
        res.evaluations as f64 / res.wall_s.max(1e-9)
    );
    for (k, v) in &res.stats.counters {
        println!("  {k} = {v}");
    }
    for pr in p.probes() {
        if res.stats.get(pr) == 0 && exit_code == 0 {
            println!("WARNING: reach probe {pr} stayed at zero");
        }
    }
    if skipped_pct > 20.0 {
        println!("WARNING: {skipped_pct:.1}% of the scenarios were skipped because a precondition measured on the real code failed");
    }
    if !args.iter().any(|a| a == "--no-evidence") {
        let e = runner::EvidenceInput { prop: p, tier, seed, res: &res, violations, known: known_hits };
        if let Err(err) = runner::write_evidence(&out, &e) {
            eprintln!("cannot write evidence: {err}");
            exit(2);
        }
    }
    exit(exit_code);
}

fn cmd_replay(args: &[String]) {
    let path = match args.get(2) {
        Some(p) => p,
        None => {
            eprintln!("usage: simctl replay <file>");
            exit(2)
        }
    };
    let text = match std::fs::read_to_string(path) {
        Ok(t) => t,
        Err(e) => {
            eprintln!("cannot read {path}: {e}");
            exit(2)
        }
    };
    let sc = match Scenario::from_text(&text) {
        Ok(s) => s,
        Err(e) => {
            eprintln!("cannot parse {path}: {e}");
            exit(2)
        }
    };
    let p = prop_or_die(Some(&sc.prop));
    if let Some(ts) = sc.knob("tree_seed") {
        if ts as u64 != simcore::spec::TREE_SEED {
            eprintln!("replay file refers to the interface menu of SIM_TREE_SEED={ts}, this binary was built with {}; use ./check --replay, which builds the right one", simcore::spec::TREE_SEED);
            exit(2);
        }
    }
    if sc.knob("extra").is_some() {
        let mut st = Stats::default();
        match p.extra(&mut st) {
            Err((class, detail)) if class == sc.class => {
                println!("VIOLATION property={} replay={path}\n  class={class}\n  {detail}", p.id());
                exit(1);
            }
            other => {
                println!("replay: obligation result {other:?}, expected class {}", sc.class);
                exit(0);
            }
        }
    }
    {
        // watchdog for the replay itself
        let (path, class, pid) = (path.clone(), sc.class.clone(), p.id());
        std::thread::spawn(move || {
            std::thread::sleep(std::time::Duration::from_secs(10));
            if class == "hang" {
                println!("VIOLATION property={pid} replay={path}\n  class=hang\n  the library did not return to the executor within 10 s");
                exit(1);
            }
            println!("replay: no result within 10 s (the library hangs on this scenario; expected class {class})");
            exit(if pid == "C05" { 1 } else { 2 });
        });
    }
    let mut st = Stats::default();
    match p.check(&sc, &mut st) {
        Verdict::Violation { class, detail } => {
            if sc.class.is_empty() || class == sc.class {
                println!("VIOLATION property={} replay={path}", p.id());
                println!("  class={class}");
                println!("  stream: {}", scenario::show(&sc.bytes()));
                println!("  {detail}");
                exit(1);
            } else {
                println!("replay: violation of class {class}, file expects {}", sc.class);
                println!("  {detail}");
                exit(1);
            }
        }
        Verdict::Held { .. } => {
            println!("replay: property {} held on this scenario (expected class {})", p.id(), sc.class);
            exit(0);
        }
        Verdict::Skip(why) => {
            println!("replay: scenario skipped ({why})");
            exit(0);
        }
    }
}

/// Determinism self test: a digest over every event of every execution of
/// the first `count` scenarios; must be identical across processes and
/// worker counts.
fn cmd_digest(args: &[String]) {
    let p = prop_or_die(args.get(2));
    let count: u64 = arg_after(args, "--count").and_then(|s| s.parse().ok()).unwrap_or(20_000);
    let workers: usize = arg_after(args, "--workers").and_then(|s| s.parse().ok()).unwrap_or(16);
    let thorough = arg_after(args, "--tier") == Some("thorough");
    let seed = verif_seed();
    runner::DIGEST_EVENTS.store(true, std::sync::atomic::Ordering::Relaxed);
    let res = runner::run_batch(p, seed, thorough, count, workers, "/nonexistent");
    let mut h = simcore::rng::Fnv::new();
    h.u64(res.stats.ev_digest);
    h.u64(res.evaluations);
    h.u64(res.skipped);
    for (k, v) in &res.stats.counters {
        h.bytes(k.as_bytes());
        h.u64(*v);
    }
    for s in &res.stats.sigs {
        h.u64(*s);
    }
    for s in &res.stats.states {
        h.u64(*s);
    }
    println!("digest {} seed={seed} count={count} = {:016x} violation={:?}", p.id(), h.finish(), res.violation.as_ref().map(|v| (v.0, v.2.clone())));
}

fn cmd_show(args: &[String]) {
    let p = prop_or_die(args.get(2));
    let idx: u64 = args.get(3).and_then(|s| s.parse().ok()).unwrap_or(0);
    let thorough = arg_after(args, "--tier") == Some("thorough");
    let sc = p.generate_at(idx, simcore::rng::derive(verif_seed(), idx), thorough);
    print!("{}", sc.to_text());
    let mut st = Stats::default();
    println!("# verdict: {:?}", p.check(&sc, &mut st));
}

/// prints the first scenarios whose verdict mentions `--grep <text>`
fn cmd_scan(args: &[String]) {
    let p = prop_or_die(args.get(2));
    let count: u64 = arg_after(args, "--count").and_then(|s| s.parse().ok()).unwrap_or(20_000);
    let grep = arg_after(args, "--grep").unwrap_or("Skip");
    let max: usize = arg_after(args, "--max").and_then(|s| s.parse().ok()).unwrap_or(3);
    let thorough = arg_after(args, "--tier") == Some("thorough");
    let mut shown = 0;
    for i in 0..count {
        let sc = p.generate_at(i, simcore::rng::derive(verif_seed(), i), thorough);
        let mut st = Stats::default();
        let v = format!("{:?}", p.check(&sc, &mut st));
        if v.contains(grep) {
            println!("--- index {i}\n{}# verdict: {v}", sc.to_text());
            shown += 1;
            if shown >= max {
                break;
            }
        }
    }
}

/// ad-hoc execution: simctl exec --iface t0 --n 64 [--cap 0] [--mode run|process|permsg] '<stream with \\n escapes>'
fn cmd_exec(args: &[String]) {
    use simcore::exec::{Exec, Mode, Sink};
    let name = arg_after(args, "--iface").unwrap_or("t0");
    let iface = simcore::spec::IFACES.iter().find(|i| i.name == name).map(|i| i.index).unwrap_or(0);
    let n: usize = arg_after(args, "--n").and_then(|s| s.parse().ok()).unwrap_or(64);
    let cap: usize = arg_after(args, "--cap").and_then(|s| s.parse().ok()).unwrap_or(simcore::spec::IFACES[iface].caps[0]);
    let text = args.last().cloned().unwrap_or_default();
    let stream = text.replace("\\n", "\n").replace("\\r", "\r").into_bytes();
    let mode = match arg_after(args, "--mode").unwrap_or("process") {
        "run" => Mode::Run { sink: Sink::Sim(None), splits: vec![0, stream.len()] },
        "permsg" => Mode::Run { sink: Sink::Sim(None), splits: props::newline_splits(&stream) },
        _ => Mode::Process,
    };
    let mut ex = Exec::new(iface, cap, n, mode, stream);
    if let Some(c) = arg_after(args, "--chunks") {
        ex.chunks = c.split(',').filter_map(|x| x.parse().ok()).collect();
    }
    let o = dispatch::execute(&ex);
    println!("{}", props::brief(&o));
    println!("results={:?} remainders={:?} polls={} allocs={} unsupported={}", o.results, o.remainders, o.polls, o.lib_allocs, o.unsupported);
}
