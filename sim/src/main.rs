use simcore::exec;

#[global_allocator]
static GLOBAL: simcore::alloc::CountingAlloc = simcore::alloc::CountingAlloc;

mod dispatch {
    include!(concat!(env!("OUT_DIR"), "/dispatch.rs"));
}

fn main() {
    simcore::install_panic_hook();
    let args: Vec<String> = std::env::args().collect();
    let stream = args.get(1).map(|s| s.replace("\\n", "\n")).unwrap_or("FOO\nSYST:FOO;BAR\n*IDN?\n".into());
    let n: usize = args.get(2).and_then(|s| s.parse().ok()).unwrap_or(64);
    let mut ex = exec::Exec::new(0, 0, n, exec::Mode::Process, stream.into_bytes());
    ex.susp = vec![1, 0, 2, 1];
    let t = std::time::Instant::now();
    let out = dispatch::execute(&ex);
    let el = t.elapsed();
    for (i, e) in out.events.iter().enumerate() {
        println!("{i:3} {e:?}");
    }
    println!("{:?} {:?}", exec::Out { events: vec![], ..out }, el);
}
