//! Seeded search: scenario seeds s_i = derive(VERIF_SEED, i), worker threads
//! take index ranges, results are merged by index so that the outcome does
//! not depend on the number of workers.  Minimisation and evidence.
use std::collections::BTreeMap;
use std::sync::atomic::{AtomicBool, AtomicU64, Ordering};
use std::sync::{Arc, Mutex};
use std::time::Instant;

use simcore::rng::derive;

use crate::scenario::Scenario;

#[derive(Clone, Debug)]
pub enum Verdict {
    /// property held; `nontrivial` by the property's stated rule; `sig` is the
    /// schedule/structure signature used to count distinct cases
    Held { nontrivial: bool, sig: u64 },
    /// a precondition measured on the real code failed; nothing is claimed
    Skip(&'static str),
    Violation { class: String, detail: String },
}

#[derive(Default, Clone)]
pub struct Stats {
    pub counters: BTreeMap<&'static str, u64>,
    pub sigs: Vec<u64>,
    pub nontrivial_sigs: Vec<u64>,
    pub states: Vec<u64>,
    pub samples: Vec<String>,
    /// order independent digest over every event of every execution (digest subcommand)
    pub ev_digest: u64,
}

/// set by the digest subcommand: hash every event of every execution
pub static DIGEST_EVENTS: AtomicBool = AtomicBool::new(false);

impl Stats {
    #[inline]
    pub fn bump(&mut self, k: &'static str) {
        *self.counters.entry(k).or_insert(0) += 1;
    }
    #[inline]
    pub fn add(&mut self, k: &'static str, n: u64) {
        *self.counters.entry(k).or_insert(0) += n;
    }
    pub fn get(&self, k: &str) -> u64 {
        self.counters.get(k).copied().unwrap_or(0)
    }
    fn merge(&mut self, o: Stats) {
        for (k, v) in o.counters {
            *self.counters.entry(k).or_insert(0) += v;
        }
        self.sigs.extend(o.sigs);
        self.nontrivial_sigs.extend(o.nontrivial_sigs);
        self.states.extend(o.states);
        self.samples.extend(o.samples);
        self.ev_digest = self.ev_digest.wrapping_add(o.ev_digest);
    }
}

pub trait Prop: Sync {
    fn id(&self) -> &'static str;
    fn level(&self) -> &'static str {
        "exploration"
    }
    /// scenarios per tier
    fn budget(&self, thorough: bool) -> u64;
    fn generate(&self, seed: u64, thorough: bool) -> Scenario;
    /// scenario `index` of a batch; by default a pure function of the derived seed,
    /// a property may map a prefix of the indices to an enumeration
    fn generate_at(&self, index: u64, seed: u64, thorough: bool) -> Scenario {
        let _ = index;
        self.generate(seed, thorough)
    }
    fn check(&self, sc: &Scenario, st: &mut Stats) -> Verdict;
    fn rule(&self) -> &'static str;
    fn assumptions(&self) -> Vec<&'static str>;
    /// counters that must be non-zero in a healthy batch (reach probes)
    fn probes(&self) -> Vec<&'static str> {
        vec![]
    }
    /// When a scenario hangs: an execution of the same scenario that the property
    /// compares the others with (e.g. the reference schedule).  If THAT one finishes,
    /// the hang is specific to what this property varies and is its violation too.
    fn hang_probe(&self, _sc: &Scenario) -> Option<simcore::exec::Exec> {
        None
    }
    /// one-off obligations outside the seeded search (e.g. a link test)
    fn extra(&self, _st: &mut Stats) -> Result<(), (String, String)> {
        Ok(())
    }
}

pub struct BatchResult {
    pub stats: Stats,
    pub evaluations: u64,
    pub skipped: u64,
    pub violation: Option<(u64, Scenario, String, String)>,
    pub wall_s: f64,
}

struct Slot {
    /// scenario index + 1 while a scenario is being executed, 0 otherwise
    idx: AtomicU64,
    /// start of that scenario, milliseconds since batch start
    start: AtomicU64,
    /// the watchdog gave up on this worker (it never returned from a scenario)
    abandoned: AtomicBool,
}

struct Shared {
    p: &'static dyn Prop,
    seed: u64,
    thorough: bool,
    budget: u64,
    next: AtomicU64,
    first_bad: AtomicU64,
    live: AtomicU64,
    slots: Vec<Slot>,
    results: Mutex<Vec<(Stats, u64, u64, Option<(u64, Scenario, String, String)>)>>,
    t0: Instant,
}

const BLOCK: u64 = 256;
const HANG_MS: u64 = 10_000;

fn worker(sh: Arc<Shared>, wi: usize) {
    let p = sh.p;
    let mut st = Stats::default();
    let mut evals = 0u64;
    let mut skipped = 0u64;
    let mut bad: Option<(u64, Scenario, String, String)> = None;
    'outer: loop {
        let lo = sh.next.fetch_add(BLOCK, Ordering::Relaxed);
        if lo >= sh.budget {
            break;
        }
        let hi = (lo + BLOCK).min(sh.budget);
        for i in lo..hi {
            if i > sh.first_bad.load(Ordering::Relaxed) {
                break;
            }
            sh.slots[wi].start.store(sh.t0.elapsed().as_millis() as u64, Ordering::Relaxed);
            sh.slots[wi].idx.store(i + 1, Ordering::Relaxed);
            let sc_seed = derive(sh.seed, i);
            let sc = p.generate_at(i, sc_seed, sh.thorough);
            let v = p.check(&sc, &mut st);
            if sh.slots[wi].abandoned.load(Ordering::Relaxed) {
                // the watchdog has written this worker off (and counted the scenario as hung)
                break 'outer;
            }
            evals += 1;
            match v {
                Verdict::Held { nontrivial, sig } => {
                    st.sigs.push(sig);
                    if nontrivial {
                        st.nontrivial_sigs.push(sig);
                    }
                    // a few samples, chosen by index only
                    if i < 3 || (nontrivial && i % 997 == 0 && i < 20_000) {
                        st.samples.push(sample_json(&sc));
                    }
                }
                Verdict::Skip(why) => {
                    skipped += 1;
                    st.bump(why);
                }
                Verdict::Violation { class, detail } => {
                    sh.first_bad.fetch_min(i, Ordering::Relaxed);
                    if bad.as_ref().map(|b| i < b.0).unwrap_or(true) {
                        bad = Some((i, sc, class, detail));
                    }
                }
            }
        }
        sh.slots[wi].idx.store(0, Ordering::Relaxed);
    }
    sh.slots[wi].idx.store(0, Ordering::Relaxed);
    sh.results.lock().unwrap().push((st, evals, skipped, bad));
    if !sh.slots[wi].abandoned.load(Ordering::Relaxed) {
        sh.live.fetch_sub(1, Ordering::SeqCst);
    }
}

/// Runs `budget` scenarios on `workers` threads.  The calling thread is the
/// watchdog (the only use of real time; it never influences a scenario): a
/// scenario that has not returned to the executor for 10 s is a hang.  For
/// C05 that is the violation; every other check counts it as skipped
/// ("C05's subject"), abandons the stuck thread and carries on with a fresh one.
pub fn run_batch(p: &'static dyn Prop, seed: u64, thorough: bool, budget: u64, workers: usize, out_dir: &str) -> BatchResult {
    let t0 = Instant::now();
    const SPARE: usize = 24;
    let sh = Arc::new(Shared {
        p,
        seed,
        thorough,
        budget,
        next: AtomicU64::new(0),
        first_bad: AtomicU64::new(u64::MAX),
        live: AtomicU64::new(workers as u64),
        slots: (0..workers + SPARE).map(|_| Slot { idx: AtomicU64::new(0), start: AtomicU64::new(0), abandoned: AtomicBool::new(false) }).collect(),
        results: Mutex::new(Vec::new()),
        t0,
    });
    for wi in 0..workers {
        let sh2 = sh.clone();
        std::thread::spawn(move || worker(sh2, wi));
    }
    let mut used_slots = workers;
    let mut hangs: Vec<u64> = Vec::new();
    let mut gave_up = false;
    let mut nap = 1u64;
    while sh.live.load(Ordering::SeqCst) > 0 {
        std::thread::sleep(std::time::Duration::from_millis(nap));
        nap = (nap * 2).min(100);
        let now = t0.elapsed().as_millis() as u64;
        for wi in 0..used_slots {
            let slot = &sh.slots[wi];
            let i = slot.idx.load(Ordering::Relaxed);
            if i == 0 || slot.abandoned.load(Ordering::Relaxed) || now <= slot.start.load(Ordering::Relaxed) + HANG_MS {
                continue;
            }
            let sc_seed = derive(seed, i - 1);
            if p.id() == "C05" {
                let mut sc = p.generate_at(i - 1, sc_seed, thorough);
                sc.class = "hang".into();
                let path = format!("{out_dir}/replays/C05-{sc_seed}.replay");
                let _ = std::fs::create_dir_all(format!("{out_dir}/replays"));
                let _ = std::fs::write(&path, sc.to_text());
                println!("VIOLATION property=C05 replay={path}");
                println!("  class=hang");
                println!("  stream: {}", crate::scenario::show(&sc.bytes()));
                println!("  the library did not return to the executor within 10 s (scenario index {}): it loops without consuming input", i - 1);
                std::process::exit(1);
            }
            slot.abandoned.store(true, Ordering::Relaxed);
            sh.live.fetch_sub(1, Ordering::SeqCst);
            hangs.push(i - 1);
            // does the property's reference execution of this scenario finish?
            {
                let sc = p.generate_at(i - 1, sc_seed, thorough);
                if let Some(ex) = p.hang_probe(&sc) {
                    let (tx, rx) = std::sync::mpsc::channel();
                    std::thread::spawn(move || {
                        let o = crate::dispatch::execute(&ex);
                        let _ = tx.send(o.crashed());
                    });
                    if let Ok(false) = rx.recv_timeout(std::time::Duration::from_secs(5)) {
                        let mut sc = sc;
                        sc.class = "hang".into();
                        sc.set("tree_seed", simcore::spec::TREE_SEED as i64);
                        let path = format!("{out_dir}/replays/{}-{sc_seed}.replay", p.id());
                        let _ = std::fs::create_dir_all(format!("{out_dir}/replays"));
                        let _ = std::fs::write(&path, sc.to_text());
                        println!("VIOLATION property={} replay={path}", p.id());
                        println!("  class=hang");
                        println!("  stream: {}", crate::scenario::show(&sc.bytes()));
                        println!("  the reference execution of this scenario finishes, another one does not return to the executor within 10 s (scenario index {})", i - 1);
                        std::process::exit(1);
                    }
                }
            }
            println!("NOTE: scenario index {} (seed {sc_seed}) did not return within 10 s; hangs are C05's subject, the scenario is skipped and its thread abandoned", i - 1);
            if hangs.len() >= 12 || used_slots >= sh.slots.len() {
                // the library hangs often: stop handing out work, let the live workers
                // finish what they are doing and report what was explored
                if !gave_up {
                    println!("NOTE: {} scenarios hung (C05's subject); the remaining budget is not explored", hangs.len());
                }
                gave_up = true;
                sh.next.store(u64::MAX / 2, Ordering::SeqCst);
                sh.first_bad.fetch_min(0, Ordering::SeqCst);
                continue;
            }
            let (sh2, nw) = (sh.clone(), used_slots);
            used_slots += 1;
            sh.live.fetch_add(1, Ordering::SeqCst);
            std::thread::spawn(move || worker(sh2, nw));
        }
    }

    let mut stats = Stats::default();
    let mut evaluations = 0;
    let mut skipped = 0;
    let mut violation: Option<(u64, Scenario, String, String)> = None;
    let mut parts = std::mem::take(&mut *sh.results.lock().unwrap());
    // merge in a worker-independent way: counters are sums, sets are sorted
    for (st, e, sk, bad) in parts.drain(..) {
        stats.merge(st);
        evaluations += e;
        skipped += sk;
        if let Some(b) = bad {
            if violation.as_ref().map(|v| b.0 < v.0).unwrap_or(true) {
                violation = Some(b);
            }
        }
    }
    for _ in &hangs {
        evaluations += 1;
        skipped += 1;
        stats.bump("skip:hang(C05)");
    }
    stats.sigs.sort_unstable();
    stats.sigs.dedup();
    stats.nontrivial_sigs.sort_unstable();
    stats.nontrivial_sigs.dedup();
    stats.states.sort_unstable();
    stats.states.dedup();
    stats.samples.sort();
    stats.samples.truncate(8);
    BatchResult { stats, evaluations, skipped, violation, wall_s: t0.elapsed().as_secs_f64() }
}

pub fn json_str(s: &str) -> String {
    let mut o = String::from("\"");
    for c in s.chars() {
        match c {
            '"' => o.push_str("\\\""),
            '\\' => o.push_str("\\\\"),
            '\n' => o.push_str("\\n"),
            '\r' => o.push_str("\\r"),
            '\t' => o.push_str("\\t"),
            c if (c as u32) < 0x20 => o.push_str(&format!("\\u{:04x}", c as u32)),
            c => o.push(c),
        }
    }
    o.push('"');
    o
}

pub fn sample_json(sc: &Scenario) -> String {
    let sched = sc.scheds.first().cloned().unwrap_or_default();
    format!(
        "{{\"seed\": {}, \"iface\": {}, \"n\": {}, \"cap\": {}, \"stream\": {}, \"schedules\": {}, \"first_chunks\": {:?}, \"first_susp\": {:?}, \"knobs\": {}}}",
        sc.seed,
        json_str(simcore::spec::IFACES[sc.iface].name),
        sc.n,
        sc.cap,
        json_str(&crate::scenario::show(&sc.bytes())),
        sc.scheds.len(),
        &sched.chunks[..sched.chunks.len().min(12)],
        &sched.susp[..sched.susp.len().min(12)],
        json_str(&format!("{:?}", sc.knobs)),
    )
}

// ------------------------------------------------------------ minimisation

fn same_class(p: &dyn Prop, sc: &Scenario, class: &str) -> bool {
    let mut st = Stats::default();
    matches!(p.check(sc, &mut st), Verdict::Violation { class: c, .. } if c == class)
}

/// Greedy minimisation while the same (property, class) persists.
pub fn minimise(p: &dyn Prop, sc: &Scenario, class: &str) -> (Scenario, u32) {
    let mut best = sc.clone();
    let mut evals = 0u32;
    let budget = 4000u32;
    let mut progress = true;
    while progress && evals < budget {
        progress = false;
        let mut cands: Vec<Scenario> = Vec::new();
        // drop schedules (keep at least one)
        if best.scheds.len() > 1 {
            for i in 0..best.scheds.len() {
                let mut c = best.clone();
                c.scheds.remove(i);
                cands.push(c);
            }
        }
        // drop messages / units / arguments
        for i in 0..best.msgs.len() {
            if best.msgs.len() > 1 {
                let mut c = best.clone();
                c.msgs.remove(i);
                cands.push(c);
            }
            for j in 0..best.msgs[i].units.len() {
                if best.msgs[i].units.len() > 1 {
                    let mut c = best.clone();
                    c.msgs[i].units.remove(j);
                    cands.push(c);
                }
                for k in 0..best.msgs[i].units[j].args.len() {
                    let a = &best.msgs[i].units[j].args[k];
                    // shorten string / block payloads, keeping the literal well formed
                    if let Some(s) = shorten_literal(a) {
                        let mut c = best.clone();
                        c.msgs[i].units[j].args[k] = s;
                        cands.push(c);
                    }
                }
            }
            if best.msgs[i].semi {
                let mut c = best.clone();
                c.msgs[i].semi = false;
                cands.push(c);
            }
            if !best.msgs[i].lead.is_empty() && !best.msgs[i].units.is_empty() {
                let mut c = best.clone();
                c.msgs[i].lead.clear();
                cands.push(c);
            }
        }
        // raw streams: delete ranges, then single bytes
        if best.msgs.is_empty() && !best.stream.is_empty() {
            let len = best.stream.len();
            let mut w = len / 2;
            while w >= 1 {
                let mut i = 0;
                while i + w <= len {
                    let mut c = best.clone();
                    c.stream.drain(i..i + w);
                    cands.push(c);
                    i += w;
                }
                if w == 1 {
                    break;
                }
                w /= 2;
            }
            for i in 0..len {
                let b = best.stream[i];
                if b != b'\n' && b != b'A' && !(b.is_ascii_alphanumeric() || b":;,*?#\"' ".contains(&b)) {
                    let mut c = best.clone();
                    c.stream[i] = b'A';
                    cands.push(c);
                }
            }
        }
        // schedules: default chunks, no suspensions, fewer entries
        for i in 0..best.scheds.len() {
            if !best.scheds[i].chunks.is_empty() {
                let mut c = best.clone();
                c.scheds[i].chunks.clear();
                cands.push(c);
                let mut c = best.clone();
                c.scheds[i].chunks.retain(|&x| x != 0);
                if c != best {
                    cands.push(c);
                }
                // merge two adjacent chunks
                for j in 0..best.scheds[i].chunks.len().saturating_sub(1) {
                    let (a, b) = (best.scheds[i].chunks[j], best.scheds[i].chunks[j + 1]);
                    if a != u32::MAX && b != u32::MAX && a != 0 && b != 0 {
                        let mut c = best.clone();
                        c.scheds[i].chunks[j] = a + b;
                        c.scheds[i].chunks.remove(j + 1);
                        cands.push(c);
                    }
                }
            }
            if best.scheds[i].susp.iter().any(|&x| x != 0) {
                let mut c = best.clone();
                c.scheds[i].susp.clear();
                cands.push(c);
                for j in 0..best.scheds[i].susp.len() {
                    if best.scheds[i].susp[j] != 0 {
                        let mut c = best.clone();
                        c.scheds[i].susp[j] = 0;
                        cands.push(c);
                    }
                }
            } else if !best.scheds[i].susp.is_empty() {
                let mut c = best.clone();
                c.scheds[i].susp.clear();
                cands.push(c);
            }
        }
        // knobs: remove optional ones
        for k in ["restart", "cancel_at", "lockstep", "mutated"] {
            if best.knobs.contains_key(k) {
                let mut c = best.clone();
                c.knobs.remove(k);
                cands.push(c);
            }
        }
        // smaller buffer
        {
            let ns = simcore::spec::IFACES[best.iface].ns;
            if let Some(pos) = ns.iter().position(|&x| x == best.n) {
                if pos > 0 {
                    let mut c = best.clone();
                    c.n = ns[pos - 1];
                    cands.push(c);
                }
            }
        }
        for c in cands {
            if evals >= budget {
                break;
            }
            evals += 1;
            if same_class(p, &c, class) {
                best = c;
                progress = true;
                break;
            }
        }
    }
    (best, evals)
}

fn shorten_literal(a: &[u8]) -> Option<Vec<u8>> {
    if a.len() >= 3 && (a[0] == b'"' || a[0] == b'\'') && a[a.len() - 1] == a[0] {
        // drop the last payload byte (keep UTF-8 valid: drop whole trailing char)
        let inner = &a[1..a.len() - 1];
        let s = std::str::from_utf8(inner).ok()?;
        let mut cs: Vec<char> = s.chars().collect();
        cs.pop();
        let t: String = cs.into_iter().collect();
        return Some(crate::gen::quote(a[0], t.as_bytes()));
    }
    if a.len() >= 3 && a[0] == b'#' && a[1].is_ascii_digit() {
        let d = (a[1] - b'0') as usize;
        if d >= 1 && a.len() >= 2 + d {
            let len: usize = std::str::from_utf8(&a[2..2 + d]).ok()?.parse().ok()?;
            if len > 0 && a.len() == 2 + d + len {
                let payload = &a[2 + d..a.len() - 1];
                return Some(crate::gen::block(payload, 0));
            }
        }
    }
    None
}

// ------------------------------------------------------------ evidence

pub struct EvidenceInput<'a> {
    pub prop: &'a dyn Prop,
    pub tier: &'a str,
    pub seed: u64,
    pub res: &'a BatchResult,
    pub violations: u64,
    pub known: u64,
}

pub fn write_evidence(dir: &str, e: &EvidenceInput) -> std::io::Result<()> {
    let st = &e.res.stats;
    let mut counters = String::new();
    for (i, (k, v)) in st.counters.iter().enumerate() {
        if i > 0 {
            counters.push_str(", ");
        }
        counters.push_str(&format!("{}: {}", json_str(k), v));
    }
    let samples = if st.samples.is_empty() { "{\"note\": \"no scenario held\"}".to_string() } else { st.samples.join(",\n      ") };
    let rate = if e.res.wall_s > 0.0 { e.res.evaluations as f64 / e.res.wall_s } else { 0.0 };
    let assumptions: Vec<String> = e.prop.assumptions().iter().map(|s| json_str(s)).collect();
    let probes: Vec<String> = e.prop.probes().iter().map(|p| format!("{}: {}", json_str(p), st.get(p))).collect();
    let text = format!(
        r##"{{
  "property_id": {id},
  "tier": {tier},
  "seed": {seed},
  "level": {level},
  "coverage": {{
    "evaluations": {evals},
    "distinct_nontrivial": {dn},
    "rule": {rule},
    "samples": [
      {samples}
    ],
    "distinct_signatures": {ds},
    "distinct_abstract_states": {states},
    "skipped_precondition": {skipped},
    "scenarios_per_second": {rate:.1},
    "seeds_per_hour": {sph:.0},
    "simulated_time": "n/a: the code under simulation has no clock or timer; progress is counted in executor polls and transport calls",
    "executor_polls": {polls},
    "transport_calls": {tcalls},
    "library_executions": {execs},
    "reach_probes": {{{probes}}},
    "counters": {{{counters}}},
    "components": {{
      "real": ["microscpi::parser", "microscpi::tree", "microscpi::value", "microscpi::response", "microscpi::error", "microscpi::error_queue", "microscpi::commands", "Interface::execute/run/process", "#[microscpi::interface] output for the generated interface menu"],
      "stub": ["Adapter (scripted transport)", "Write sink (recording pass-through writer)", "user handlers (recording, scripted suspension and failure)", "ErrorHandler / ErrorQueue wrapper (recording, delegates to the real StaticErrorQueue)", "executor (single task poll loop)", "global allocator wrapper (counts allocations inside library code)", "controller (pipelined / lock-step)"]
    }},
    "tree_seed": {tree_seed},
    "additional_batches": {extra},
    "exhaustive": false
  }},
  "assumptions": [{assumptions}],
  "wall_s": {wall:.3},
  "violations": {viol},
  "known_findings_matched": {known}
}}
"##,
        id = json_str(e.prop.id()),
        tier = json_str(e.tier),
        seed = e.seed,
        level = json_str(e.prop.level()),
        evals = e.res.evaluations,
        dn = st.nontrivial_sigs.len(),
        rule = json_str(e.prop.rule()),
        samples = samples,
        ds = st.sigs.len(),
        states = st.states.len(),
        skipped = e.res.skipped,
        rate = rate,
        sph = rate * 3600.0,
        polls = st.get("polls"),
        tcalls = st.get("transport_calls"),
        execs = st.get("executions"),
        probes = probes.join(", "),
        counters = counters,
        assumptions = assumptions.join(", "),
        wall = e.res.wall_s,
        viol = e.violations,
        known = e.known,
        tree_seed = simcore::spec::TREE_SEED,
        extra = json_str(&std::env::var("SIM_EXTRA_NOTE").unwrap_or_else(|_| "none".into())),
    );
    std::fs::create_dir_all(format!("{dir}/evidence"))?;
    std::fs::write(format!("{dir}/evidence/{}.json", e.prop.id()), text)
}
