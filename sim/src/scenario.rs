//! The explicit scenario: everything an execution and its oracle need, with
//! no reference to the PRNG.  This is what is minimised and what a replay
//! file contains.
use std::collections::BTreeMap;
use std::fmt::Write as _;

/// fault kinds of a unit (C06 / C09 workloads)
pub mod fault {
    pub const NONE: u8 = 0;
    /// unit text is syntactically wrong (`raw` holds the bytes)
    pub const SYNTAX: u8 = 1;
    /// well-formed header that is not declared (unknown mnemonic, wrong level,
    /// query on command-only node or the reverse, interior node)
    pub const UNDEFINED: u8 = 2;
    /// wrong number of parameters
    pub const ARITY: u8 = 3;
    /// a literal that does not fit the declared parameter
    pub const CONVERT: u8 = 4;
    /// the handler itself returns Err(Custom(code, text))
    pub const HANDLER: u8 = 5;
    pub fn name(k: u8) -> &'static str {
        match k {
            NONE => "none",
            SYNTAX => "syntax",
            UNDEFINED => "undefined-header",
            ARITY => "arity",
            CONVERT => "unconvertible",
            HANDLER => "handler-raised",
            _ => "?",
        }
    }
}

#[derive(Clone, Debug, PartialEq, Default)]
pub struct Unit {
    /// leading ':'
    pub colon: bool,
    /// mnemonics as written (a common command is one mnemonic starting with '*')
    pub mnems: Vec<String>,
    pub query: bool,
    /// arguments as written (`12`, `"a;b"`, `#13abc`, `ON` ...)
    pub args: Vec<Vec<u8>>,
    pub fault: u8,
    /// when set the unit is rendered as exactly these bytes
    pub raw: Option<Vec<u8>>,
    /// white space behind the unit (in front of the ';' or terminator that follows)
    pub ws_after: Vec<u8>,
    /// for faulty units: the well-formed unit this one was derived from
    /// (rendered in the "good" twin of the message); None = no good version
    pub good: Option<Box<Unit>>,
}

impl Unit {
    pub fn is_common(&self) -> bool {
        self.mnems.len() == 1 && self.mnems[0].starts_with('*')
    }
    pub fn render_into(&self, out: &mut Vec<u8>) {
        if let Some(r) = &self.raw {
            out.extend_from_slice(r);
            return;
        }
        if self.colon {
            out.push(b':');
        }
        out.extend_from_slice(self.mnems.join(":").as_bytes());
        if self.query {
            out.push(b'?');
        }
        for (i, a) in self.args.iter().enumerate() {
            out.push(if i == 0 { b' ' } else { b',' });
            out.extend_from_slice(a);
        }
        out.extend_from_slice(&self.ws_after);
    }
    pub fn render(&self) -> Vec<u8> {
        let mut v = Vec::new();
        self.render_into(&mut v);
        v
    }
}

#[derive(Clone, Debug, PartialEq, Default)]
pub struct Msg {
    pub units: Vec<Unit>,
    /// message ends in ';' before the terminator
    pub semi: bool,
    /// white space before the first unit (a message without units is just this)
    pub lead: Vec<u8>,
    /// white space between the last unit and the terminator (e.g. CR of a CR LF)
    pub trail: Vec<u8>,
}

impl Msg {
    pub fn render_into(&self, out: &mut Vec<u8>) {
        out.extend_from_slice(&self.lead);
        for (i, u) in self.units.iter().enumerate() {
            if i > 0 {
                out.push(b';');
            }
            u.render_into(out);
        }
        if self.semi && !self.units.is_empty() {
            out.push(b';');
        }
        out.extend_from_slice(&self.trail);
        out.push(b'\n');
    }
    pub fn render(&self) -> Vec<u8> {
        let mut v = Vec::new();
        self.render_into(&mut v);
        v
    }
    pub fn faulty(&self) -> Option<usize> {
        self.units.iter().position(|u| u.fault != fault::NONE)
    }
}

/// renders messages; returns the bytes and the boundaries [0, end of msg 0, ...]
pub fn render(msgs: &[Msg]) -> (Vec<u8>, Vec<usize>) {
    let mut out = Vec::new();
    let mut b = vec![0];
    for m in msgs {
        m.render_into(&mut out);
        b.push(out.len());
    }
    (out, b)
}

#[derive(Clone, Debug, PartialEq, Default)]
pub struct Sched {
    pub chunks: Vec<u32>,
    pub susp: Vec<u8>,
}

#[derive(Clone, Debug, PartialEq, Default)]
pub struct Scenario {
    pub prop: String,
    pub seed: u64,
    /// expected violation class (replay files), "" otherwise
    pub class: String,
    pub iface: usize,
    pub cap: usize,
    pub n: usize,
    pub msgs: Vec<Msg>,
    /// raw byte stream (scenarios not built from an AST)
    pub stream: Vec<u8>,
    pub scheds: Vec<Sched>,
    /// property specific integers (sink capacity, fault position, flags ...)
    pub knobs: BTreeMap<String, i64>,
}

impl Scenario {
    pub fn knob(&self, k: &str) -> Option<i64> {
        self.knobs.get(k).copied()
    }
    pub fn flag(&self, k: &str) -> bool {
        self.knob(k).unwrap_or(0) != 0
    }
    pub fn set(&mut self, k: &str, v: i64) {
        self.knobs.insert(k.to_string(), v);
    }
    /// the byte stream of this scenario
    pub fn bytes(&self) -> Vec<u8> {
        if self.msgs.is_empty() {
            self.stream.clone()
        } else {
            render(&self.msgs).0
        }
    }
    pub fn sched(&self, i: usize) -> Sched {
        self.scheds.get(i).cloned().unwrap_or_default()
    }
}

// ------------------------------------------------------------ replay files

pub fn hex(b: &[u8]) -> String {
    if b.is_empty() {
        return "-".into();
    }
    let mut s = String::with_capacity(b.len() * 2);
    for x in b {
        write!(s, "{x:02x}").unwrap();
    }
    s
}

pub fn unhex(s: &str) -> Result<Vec<u8>, String> {
    if s == "-" {
        return Ok(Vec::new());
    }
    if s.len() % 2 != 0 {
        return Err(format!("odd hex length: {s}"));
    }
    (0..s.len() / 2)
        .map(|i| u8::from_str_radix(&s[2 * i..2 * i + 2], 16).map_err(|e| format!("{e}: {s}")))
        .collect()
}

/// printable rendering for humans (comments in replay files, evidence samples)
pub fn show(b: &[u8]) -> String {
    let mut s = String::new();
    for &c in b {
        match c {
            b'\n' => s.push_str("\\n"),
            b'\r' => s.push_str("\\r"),
            b'\t' => s.push_str("\\t"),
            b'\\' => s.push_str("\\\\"),
            0x20..=0x7e => s.push(c as char),
            _ => write!(s, "\\x{c:02x}").unwrap(),
        }
    }
    s
}

fn list<T: std::fmt::Display>(v: &[T]) -> String {
    if v.is_empty() {
        return "-".into();
    }
    v.iter().map(|x| x.to_string()).collect::<Vec<_>>().join(",")
}

fn unlist<T: std::str::FromStr>(s: &str) -> Result<Vec<T>, String> {
    if s == "-" {
        return Ok(Vec::new());
    }
    s.split(',').map(|x| x.parse::<T>().map_err(|_| format!("bad list item {x}"))).collect()
}

fn unit_line(u: &Unit, tag: &str) -> String {
    format!(
        "{tag} colon={} query={} fault={} ws={} mnems={} args={} raw={}",
        u.colon as u8,
        u.query as u8,
        u.fault,
        hex(&u.ws_after),
        if u.mnems.is_empty() { "-".to_string() } else { u.mnems.iter().map(|m| m.replace('%', "%25").replace(' ', "%20").replace('\t', "%09")).collect::<Vec<_>>().join(",") },
        if u.args.is_empty() { "-".to_string() } else { u.args.iter().map(|a| hex(a)).collect::<Vec<_>>().join(",") },
        match &u.raw {
            Some(r) => format!("x{}", hex(r)),
            None => "none".into(),
        }
    )
}

fn kv(line: &str) -> BTreeMap<&str, &str> {
    line.split_whitespace().filter_map(|t| t.split_once('=')).collect()
}

fn parse_unit(line: &str) -> Result<Unit, String> {
    let m = kv(line);
    let g = |k: &str| m.get(k).copied().ok_or(format!("unit line lacks {k}: {line}"));
    let mnems = if g("mnems")? == "-" { vec![] } else { g("mnems")?.split(',').map(|s| s.replace("%20", " ").replace("%09", "\t").replace("%25", "%")).collect() };
    let args = if g("args")? == "-" {
        vec![]
    } else {
        g("args")?.split(',').map(unhex).collect::<Result<Vec<_>, _>>()?
    };
    let raw = match g("raw")? {
        "none" => None,
        x => Some(unhex(x.strip_prefix('x').ok_or("bad raw")?)?),
    };
    Ok(Unit {
        colon: g("colon")? == "1",
        query: g("query")? == "1",
        fault: g("fault")?.parse().map_err(|_| "bad fault")?,
        mnems,
        args,
        raw,
        ws_after: match m.get("ws") {
            Some(w) => unhex(w)?,
            None => Vec::new(),
        },
        good: None,
    })
}

impl Scenario {
    pub fn to_text(&self) -> String {
        let mut s = String::new();
        writeln!(s, "microscpi-sim-replay v1").unwrap();
        writeln!(s, "# stream: {}", show(&self.bytes())).unwrap();
        writeln!(s, "prop={}", self.prop).unwrap();
        writeln!(s, "seed={}", self.seed).unwrap();
        writeln!(s, "class={}", if self.class.is_empty() { "-" } else { &self.class }).unwrap();
        writeln!(s, "iface={}", self.iface).unwrap();
        writeln!(s, "cap={}", self.cap).unwrap();
        writeln!(s, "n={}", self.n).unwrap();
        writeln!(s, "stream={}", hex(&self.stream)).unwrap();
        for (k, v) in &self.knobs {
            writeln!(s, "knob {k}={v}").unwrap();
        }
        for m in &self.msgs {
            writeln!(s, "msg semi={} lead={} trail={}", m.semi as u8, hex(&m.lead), hex(&m.trail)).unwrap();
            for u in &m.units {
                writeln!(s, "{}", unit_line(u, "unit")).unwrap();
                if let Some(g) = &u.good {
                    writeln!(s, "{}", unit_line(g, "good")).unwrap();
                }
            }
            writeln!(s, "endmsg").unwrap();
        }
        for sc in &self.scheds {
            writeln!(s, "sched chunks={} susp={}", list(&sc.chunks), list(&sc.susp)).unwrap();
        }
        writeln!(s, "end").unwrap();
        s
    }

    pub fn from_text(t: &str) -> Result<Scenario, String> {
        let mut sc = Scenario::default();
        let mut lines = t.lines();
        if lines.next() != Some("microscpi-sim-replay v1") {
            return Err("not a replay file".into());
        }
        let mut cur: Option<Msg> = None;
        let mut ended = false;
        for line in lines {
            let line = line.trim();
            if line.is_empty() || line.starts_with('#') {
                continue;
            }
            if line == "end" {
                ended = true;
                break;
            }
            if let Some(rest) = line.strip_prefix("knob ") {
                let (k, v) = rest.split_once('=').ok_or("bad knob")?;
                sc.knobs.insert(k.to_string(), v.parse().map_err(|_| "bad knob value")?);
            } else if line.starts_with("msg ") {
                let m = kv(line);
                cur = Some(Msg {
                    units: vec![],
                    semi: m.get("semi") == Some(&"1"),
                    lead: unhex(m.get("lead").ok_or("msg lacks lead")?)?,
                    trail: match m.get("trail") {
                        Some(t) => unhex(t)?,
                        None => Vec::new(),
                    },
                });
            } else if line.starts_with("unit ") {
                cur.as_mut().ok_or("unit outside msg")?.units.push(parse_unit(line)?);
            } else if line.starts_with("good ") {
                let g = parse_unit(line)?;
                cur.as_mut().and_then(|m| m.units.last_mut()).ok_or("good without unit")?.good = Some(Box::new(g));
            } else if line == "endmsg" {
                sc.msgs.push(cur.take().ok_or("endmsg without msg")?);
            } else if line.starts_with("sched ") {
                let m = kv(line);
                sc.scheds.push(Sched {
                    chunks: unlist(m.get("chunks").ok_or("sched lacks chunks")?)?,
                    susp: unlist(m.get("susp").ok_or("sched lacks susp")?)?,
                });
            } else if let Some((k, v)) = line.split_once('=') {
                match k {
                    "prop" => sc.prop = v.to_string(),
                    "seed" => sc.seed = v.parse().map_err(|_| "bad seed")?,
                    "class" => sc.class = if v == "-" { String::new() } else { v.to_string() },
                    "iface" => sc.iface = v.parse().map_err(|_| "bad iface")?,
                    "cap" => sc.cap = v.parse().map_err(|_| "bad cap")?,
                    "n" => sc.n = v.parse().map_err(|_| "bad n")?,
                    "stream" => sc.stream = unhex(v)?,
                    _ => return Err(format!("unknown key {k}")),
                }
            } else {
                return Err(format!("cannot parse line: {line}"));
            }
        }
        if !ended {
            return Err("truncated replay file".into());
        }
        Ok(sc)
    }
}
