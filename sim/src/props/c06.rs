//! C06 - a faulty message is reported once and never affects later messages.
use microscpi::Error;
use simcore::exec::{Out, Sink};
use simcore::rng::Rng;
use simcore::spec::{Family, IFACES, R};
use simcore::world::{Arg, Ev};

use super::common::{pick_iface, valid_history};
use super::{brief, exec, process_exec, run_exec, scenario_sig};
use crate::gen::{self, Payloads};
use crate::runner::{Prop, Stats, Verdict};
use crate::scenario::{fault, render, Msg, Scenario};

pub struct C06T;
pub static C06: C06T = C06T;

#[derive(Clone, Debug, PartialEq)]
enum Tok {
    /// handler call with these arguments; `resp` = response bytes it produced in the reference run
    H { h: u16, args: Vec<Arg>, resp: Vec<u8> },
    /// a FAIL handler entered with this code
    HFail { code: i64 },
    /// one error; Some(e) = exactly this value
    E(Option<Error>),
}

enum Seg {
    Fixed(Vec<Tok>),
    /// all of these or none of them
    AllOrNone(Vec<Tok>),
}

/// per unit (handler id, args, response bytes) from a run with the recording writer
fn units_of(o: &Out) -> Vec<Tok> {
    let mut v: Vec<Tok> = Vec::new();
    for e in &o.events {
        match e {
            Ev::Enter { h, args } => v.push(Tok::H { h: *h, args: args.clone(), resp: vec![] }),
            Ev::WWrite(d) => {
                if let Some(Tok::H { resp, .. }) = v.last_mut() {
                    resp.extend_from_slice(d);
                }
            }
            _ => {}
        }
    }
    v
}

/// actual token stream: handler entries and errors in order
fn actual_tokens(o: &Out) -> Vec<(Option<(u16, &Vec<Arg>)>, Option<Error>)> {
    o.events
        .iter()
        .filter_map(|e| match e {
            Ev::Enter { h, args } => Some((Some((*h, args)), None)),
            Ev::Err(x) => Some((None, Some(*x))),
            _ => None,
        })
        .collect()
}

fn tok_matches(iface: usize, t: &Tok, a: &(Option<(u16, &Vec<Arg>)>, Option<Error>)) -> bool {
    match (t, a) {
        (Tok::H { h, args, .. }, (Some((ah, aargs)), None)) => h == ah && args == *aargs,
        (Tok::HFail { code }, (Some((ah, aargs)), None)) => {
            let d = &IFACES[iface].decls[*ah as usize];
            matches!(d.ret, R::Fail | R::FailQ) && aargs.len() == 1 && aargs[0] == Arg::I(*code)
        }
        (Tok::E(None), (None, Some(_))) => true,
        (Tok::E(Some(x)), (None, Some(y))) => x == y,
        _ => false,
    }
}

/// backtracking match; returns the chosen expansion (for the response stream)
fn match_segs(iface: usize, segs: &[Seg], act: &[(Option<(u16, &Vec<Arg>)>, Option<Error>)], pos: usize, chosen: &mut Vec<Tok>) -> bool {
    let Some((first, rest)) = segs.split_first() else {
        return pos == act.len();
    };
    let try_with = |toks: &[Tok], chosen: &mut Vec<Tok>| -> bool {
        if pos + toks.len() > act.len() {
            return false;
        }
        for (i, t) in toks.iter().enumerate() {
            if !tok_matches(iface, t, &act[pos + i]) {
                return false;
            }
        }
        let mark = chosen.len();
        chosen.extend(toks.iter().cloned());
        if match_segs(iface, rest, act, pos + toks.len(), chosen) {
            return true;
        }
        chosen.truncate(mark);
        false
    };
    match first {
        Seg::Fixed(t) => try_with(t, chosen),
        Seg::AllOrNone(t) => try_with(t, chosen) || try_with(&[], chosen),
    }
}

fn need_n(msgs: &[Msg]) -> usize {
    let mut need = 1;
    for m in msgs {
        need = need.max(m.render().len());
        need = need.max(26 * m.units.iter().filter(|u| u.query).count());
    }
    need
}

fn good_of(m: &Msg) -> Msg {
    let mut g = m.clone();
    for u in g.units.iter_mut() {
        if u.fault != fault::NONE {
            if let Some(orig) = u.good.take() {
                *u = *orig;
            }
        }
    }
    g
}

impl Prop for C06T {
    fn id(&self) -> &'static str {
        "C06"
    }
    fn budget(&self, thorough: bool) -> u64 {
        if thorough { 10_000_000 } else { 1_000_000 }
    }
    fn generate(&self, seed: u64, _thorough: bool) -> Scenario {
        let mut rng = Rng::new(seed);
        let (iface, cap) = pick_iface(&mut rng, &[Family::Tree]);
        let m = simcore::spec::model(iface);
        let k = rng.range(2, 8);
        let max_units = rng.range(1, 4);
        let pay = if rng.chance(1, 3) { Payloads::Special } else { Payloads::Plain };
        let mut msgs = valid_history(&mut rng, &m, k, max_units, pay, false);
        let mut any = false;
        let forced = rng.below(msgs.len());
        for (mi, msg) in msgs.iter_mut().enumerate() {
            if msg.units.is_empty() || !(rng.chance(2, 5) || mi == forced) {
                continue;
            }
            let j = match rng.below(3) {
                0 => 0,
                1 => msg.units.len() - 1,
                _ => rng.below(msg.units.len()),
            };
            // context of unit j
            let mut ctx: Vec<String> = Vec::new();
            for u in &msg.units[..j] {
                ctx = gen::ctx_after(&ctx, u);
            }
            let mut done = false;
            for _ in 0..6 {
                let kind = rng.range(1, 5) as u8;
                if let Some(f) = gen::make_faulty(&mut rng, &m, &ctx, &msg.units[j], kind) {
                    if matches!(kind, fault::SYNTAX | fault::UNDEFINED) {
                        // the header of the faulty unit is broken, so the path context behind it
                        // is not defined by the statement: such a unit is the last of its message
                        msg.units.truncate(j + 1);
                    }
                    msg.units[j] = f;
                    done = true;
                    break;
                }
            }
            any |= done;
        }
        let _ = any;
        let hm: Vec<Msg> = msgs.iter().filter(|m| m.faulty().is_none()).cloned().collect();
        let need = need_n(&msgs).max(need_n(&hm)).max(msgs.iter().map(|m| need_n(&[good_of(m)])).max().unwrap_or(1));
        let ns: Vec<usize> = IFACES[iface].ns.iter().copied().filter(|&n| n >= need).collect();
        let n = if ns.is_empty() { *IFACES[iface].ns.last().unwrap() } else { ns[rng.below(ns.len().min(3))] };
        let mut sc = Scenario { prop: "C06".into(), seed, iface, cap, n, msgs, ..Default::default() };
        if ns.is_empty() {
            sc.set("no_process", 1);
        }
        let s0 = render(&sc.msgs).0;
        sc.scheds.push(gen::sched(&mut rng, &s0));
        sc.scheds.push(gen::sched(&mut rng, &render(&hm).0));
        sc
    }
    fn check(&self, sc: &Scenario, st: &mut Stats) -> Verdict {
        let n_faulty = sc.msgs.iter().filter(|m| m.faulty().is_some()).count();
        if n_faulty == 0 {
            return Verdict::Skip("skip:no-faulty-message");
        }
        let hm: Vec<Msg> = sc.msgs.iter().filter(|m| m.faulty().is_none()).cloned().collect();
        let (h_bytes, h_bounds) = render(&sc.msgs);
        let (hm_bytes, hm_bounds) = render(&hm);
        let hm_units: usize = hm.iter().map(|m| m.units.len()).sum();

        // reference for the non-faulty messages: the twin history without the
        // faulty ones, through run with the recording writer
        let ref_run = exec(&run_exec(sc, hm_bytes.clone(), vec![0, hm_bytes.len()], Sink::Sim(None), vec![]), st);
        if ref_run.unsupported {
            return Verdict::Skip("skip:unsupported-configuration");
        }
        if ref_run.crashed() {
            return Verdict::Skip("skip:crashed(C05)");
        }
        let ref_units = units_of(&ref_run);
        if !ref_run.errors().is_empty() || ref_units.len() != hm_units {
            if std::env::var("SIM_DEBUG").is_ok() {
                println!("DEBUG twin: {}\n  {}", crate::scenario::show(&hm_bytes), brief(&ref_run));
            }
            return Verdict::Skip("skip:twin-history-not-error-free");
        }
        // expected segments
        let mut segs: Vec<Seg> = Vec::new();
        let mut ri = 0usize;
        for m in &sc.msgs {
            match m.faulty() {
                None => {
                    segs.push(Seg::Fixed(ref_units[ri..ri + m.units.len()].to_vec()));
                    ri += m.units.len();
                }
                Some(j) => {
                    // the scenario must be well formed by the harness model (it may have been
                    // edited by the minimiser): the faulty unit is faulty, its twin is not
                    let model = simcore::spec::model(sc.iface);
                    let mut ctx: Vec<String> = Vec::new();
                    for u in &m.units[..j] {
                        ctx = gen::ctx_after(&ctx, u);
                    }
                    let fu0 = &m.units[j];
                    let Some(gu0) = fu0.good.as_deref() else { return Verdict::Skip("skip:scenario-not-well-formed") };
                    let good_decl = if gu0.is_common() { gen::resolve(&model, &gu0.mnems, gu0.query) } else { gen::resolve(&model, &gen::full_header(&ctx, gu0), gu0.query) };
                    let Some(good_decl) = good_decl else { return Verdict::Skip("skip:scenario-not-well-formed") };
                    let well_formed = match fu0.fault {
                        fault::SYNTAX => fu0.raw.is_some() && j + 1 == m.units.len(),
                        fault::UNDEFINED => {
                            let full = if fu0.is_common() { fu0.mnems.clone() } else { gen::full_header(&ctx, fu0) };
                            gen::resolve(&model, &full, fu0.query).is_none() && j + 1 == m.units.len()
                        }
                        fault::ARITY => fu0.args.len() != model.decl(good_decl).params.len() && fu0.mnems == gu0.mnems,
                        fault::CONVERT => fu0.args.len() == model.decl(good_decl).params.len() && fu0.mnems == gu0.mnems,
                        fault::HANDLER => {
                            let full = gen::full_header(&ctx, fu0);
                            gen::resolve(&model, &full, fu0.query).map(|d| gen::is_fail(model.decl(d))).unwrap_or(false) && fu0.args.len() == 1
                        }
                        _ => false,
                    };
                    if !well_formed {
                        return Verdict::Skip("skip:scenario-not-well-formed");
                    }
                    let g = good_of(m);
                    let gb = g.render();
                    let go = exec(&run_exec(sc, gb.clone(), vec![0, gb.len()], Sink::Sim(None), vec![]), st);
                    if go.crashed() {
                        return Verdict::Skip("skip:crashed(C05)");
                    }
                    let gu = units_of(&go);
                    if !go.errors().is_empty() || gu.len() != g.units.len() {
                        return Verdict::Skip("skip:good-twin-of-faulty-message-not-valid");
                    }
                    // the twin's unit j must be the handler the harness model resolves it to,
                    // otherwise what the fault means is not what the harness thinks (C01/C02's subject)
                    match &gu[j] {
                        Tok::H { h, .. } if *h as usize == model.decl(good_decl).hid => {}
                        _ => return Verdict::Skip("skip:header-resolution-differs-from-model(C01/C02)"),
                    }
                    let fu = &m.units[j];
                    let mut fixed: Vec<Tok> = gu[..j].to_vec();
                    if fu.fault == fault::HANDLER {
                        let code: i64 = std::str::from_utf8(&fu.args[0]).ok().and_then(|s| s.parse().ok()).unwrap_or(0);
                        fixed.push(Tok::HFail { code });
                        fixed.push(Tok::E(Some(simcore::world::custom_error(code as i16))));
                    } else {
                        fixed.push(Tok::E(None));
                    }
                    segs.push(Seg::Fixed(fixed));
                    let _ = fu;
                    if j + 1 < gu.len() {
                        segs.push(Seg::AllOrNone(gu[j + 1..].to_vec()));
                    }
                }
            }
        }

        let judge = |mode: &str, o: &Out, st: &mut Stats| -> Option<Verdict> {
            let act = actual_tokens(o);
            let errs = o.errors().len();
            let mut chosen = Vec::new();
            if !match_segs(sc.iface, &segs, &act, 0, &mut chosen) {
                let class = if errs > n_faulty {
                    "error-reported-more-than-once"
                } else if errs < n_faulty {
                    "error-not-reported"
                } else {
                    "faulty-message-affects-execution"
                };
                return Some(Verdict::Violation {
                    class: format!("{class}-{mode}"),
                    detail: format!(
                        "{} faulty message(s) of kinds {:?}; {} error(s) reported; handler/error sequence is not the expected one ({mode}, N={})\n    got:{}\n    twin history without the faulty messages:{}",
                        n_faulty,
                        sc.msgs.iter().filter_map(|m| m.faulty().map(|j| fault::name(m.units[j].fault))).collect::<Vec<_>>(),
                        errs,
                        sc.n,
                        brief(o),
                        brief(&ref_run)
                    ),
                });
            }
            // Expected response stream, cut where a faulty unit sits: what (if anything)
            // is written for the faulty unit itself is C04's subject, so any bytes are
            // tolerated exactly there; everything before and after must be as expected.
            let mut segs_want: Vec<Vec<u8>> = vec![Vec::new()];
            let mut want = Vec::new();
            for t in &chosen {
                match t {
                    Tok::H { resp, .. } => {
                        want.extend_from_slice(resp);
                        segs_want.last_mut().unwrap().extend_from_slice(resp);
                    }
                    Tok::E(_) => segs_want.push(Vec::new()),
                    Tok::HFail { .. } => {}
                }
            }
            let got = o.responses();
            let matches_with_gaps = {
                let mut pos = 0usize;
                let mut ok = true;
                let last = segs_want.len() - 1;
                for (i, sgm) in segs_want.iter().enumerate() {
                    if i == 0 {
                        if got.len() >= sgm.len() && got[..sgm.len()] == sgm[..] {
                            pos = sgm.len();
                        } else {
                            ok = false;
                            break;
                        }
                    } else if i == last {
                        if got.len() >= pos + sgm.len() && got[got.len() - sgm.len()..] == sgm[..] {
                            pos = got.len();
                        } else {
                            ok = false;
                            break;
                        }
                    } else if sgm.is_empty() {
                        continue;
                    } else {
                        match got[pos..].windows(sgm.len()).position(|w| w == &sgm[..]) {
                            Some(k) => pos += k + sgm.len(),
                            None => {
                                ok = false;
                                break;
                            }
                        }
                    }
                }
                ok
            };
            if !matches_with_gaps {
                return Some(Verdict::Violation {
                    class: format!("responses-affected-{mode}"),
                    detail: format!("response bytes differ ({mode}): got [{}] expected [{}]\n    got:{}", crate::scenario::show(&o.responses()), crate::scenario::show(&want), brief(o)),
                });
            }
            st.bump("reach:history_judged");
            None
        };

        // (a) one run buffer
        let a = exec(&run_exec(sc, h_bytes.clone(), vec![0, h_bytes.len()], Sink::Sim(None), vec![]), st);
        if a.crashed() {
            return Verdict::Skip("skip:crashed(C05)");
        }
        if let Some(v) = judge("run-one-buffer", &a, st) {
            return v;
        }
        // (b) run per message, same interface object
        let b = exec(&run_exec(sc, h_bytes.clone(), h_bounds.clone(), Sink::Sim(None), vec![]), st);
        if b.crashed() {
            return Verdict::Skip("skip:crashed(C05)");
        }
        if let Some(v) = judge("run-per-message", &b, st) {
            return v;
        }
        // (c) process
        if !sc.flag("no_process") && need_n(&sc.msgs) <= sc.n {
            let refp = exec(&process_exec(sc, hm_bytes.clone(), 1), st);
            if refp.crashed() {
                return Verdict::Skip("skip:crashed(C05)");
            }
            // the twin history must behave through process as through run, else
            // the difference is C07's subject
            // ... and heapless::Vec (the writer process uses) must receive the same bytes as the
            // recording writer for the fault-free twins, else the difference is C04's subject
            let mut writers_agree = true;
            for m in sc.msgs.iter().filter(|m| m.faulty().is_some()) {
                let gb = good_of(m).render();
                let l = gb.len();
                let x = exec(&run_exec(sc, gb.clone(), vec![0, l], Sink::Heapless4096, vec![]), st);
                let y = exec(&run_exec(sc, gb, vec![0, l], Sink::Sim(None), vec![]), st);
                writers_agree &= x.responses() == y.responses();
            }
            if !writers_agree {
                st.bump("skip:writers-disagree(C04)");
            } else if refp.handlers() == ref_run.handlers() && refp.responses() == ref_run.responses() && refp.errors().is_empty() {
                let c = exec(&process_exec(sc, h_bytes.clone(), 0), st);
                if c.crashed() {
                    return Verdict::Skip("skip:crashed(C05)");
                }
                if let Some(v) = judge("process", &c, st) {
                    return v;
                }
                st.bump("reach:judged_through_process");
            } else {
                st.bump("skip:twin-history-differs-between-run-and-process");
            }
        }
        let _ = hm_bounds;
        for m in &sc.msgs {
            if let Some(j) = m.faulty() {
                st.bump(match m.units[j].fault {
                    fault::SYNTAX => "fired:fault_syntax",
                    fault::UNDEFINED => "fired:fault_undefined_header",
                    fault::ARITY => "fired:fault_arity",
                    fault::CONVERT => "fired:fault_unconvertible",
                    _ => "fired:fault_handler_raised",
                });
                if j + 1 < m.units.len() {
                    st.bump("reach:units_after_the_faulty_one");
                }
                if j > 0 {
                    st.bump("reach:units_before_the_faulty_one");
                }
            }
        }
        // non-trivial: a faulty message followed by a valid one that starts with a relative header
        let mut nontrivial = false;
        for w in sc.msgs.windows(2) {
            if w[0].faulty().is_some() && w[1].faulty().is_none() && w[1].units.first().map(|u| !u.colon && !u.is_common()).unwrap_or(false) {
                nontrivial = true;
            }
        }
        Verdict::Held { nontrivial, sig: scenario_sig(sc) }
    }
    fn rule(&self) -> &'static str {
        "one scenario = (tree interface, history of 2..8 complete messages of which a seeded subset has one faulty unit of kind syntax / undefined header / arity / unconvertible / handler-raised at first, middle or last position, N, read and suspension schedules); executed as one run buffer, run per message, and through process, and compared with the twin history without the faulty messages and with each faulty message's fault-free twin; distinct = distinct hash of (interface, N, bytes, schedules); non-trivial = a faulty message is directly followed by a valid message that starts with a header written relative to the root (so that a stale path or a kept line changes what it selects)"
    }
    fn assumptions(&self) -> Vec<&'static str> {
        vec![
            "the twin history without the faulty messages, and each faulty message's fault-free twin, must execute without error on the real code, otherwise the scenario is skipped",
            "which error number a fault carries is not checked (the statement only fixes it for handler-raised errors, which must arrive verbatim)",
            "units after the faulty one: both 'all executed' and 'none executed' are accepted, a mix is not",
            "through process the history is judged only when its fault-free twin behaves the same through process and run (else C07)",
        ]
    }
    fn probes(&self) -> Vec<&'static str> {
        vec!["fired:fault_syntax", "fired:fault_undefined_header", "fired:fault_arity", "fired:fault_unconvertible", "fired:fault_handler_raised", "reach:units_after_the_faulty_one", "reach:units_before_the_faulty_one", "reach:judged_through_process"]
    }
}
