//! C02 - header path context follows the SCPI compound-message rules.
use simcore::exec::{Out, Sink};
use simcore::rng::Rng;
use simcore::spec::{Family, IFACES};
use simcore::world::Ev;

use super::common::{pick_iface, valid_history};
use super::{brief, exec, process_exec, run_exec, scenario_sig};
use crate::gen::{self, Payloads};
use crate::runner::{Prop, Stats, Verdict};
use crate::scenario::{fault, render, Msg, Scenario};

pub struct C02T;
pub static C02: C02T = C02T;

/// every unit as its own absolute message, prefix computed textually by the
/// rule of the property statement
pub fn rewrite(msgs: &[Msg]) -> Vec<Msg> {
    let mut out = Vec::new();
    for m in msgs {
        if m.units.is_empty() {
            out.push(m.clone());
            continue;
        }
        let mut ctx: Vec<String> = Vec::new();
        for u in &m.units {
            let a = gen::absolute(&ctx, u);
            ctx = gen::ctx_after(&ctx, u);
            out.push(Msg { units: vec![a], semi: false, lead: vec![], trail: vec![] });
        }
    }
    out
}

/// the history with everything behind a unit that fails in execution removed from its
/// message: C06 allows an implementation to skip the rest of a message after an error
/// ("all or none"), and C02 must not demand more
fn truncate_after_failures(msgs: &[Msg]) -> Option<Vec<Msg>> {
    let mut changed = false;
    let mut out = msgs.to_vec();
    for m in out.iter_mut() {
        if let Some(j) = m.faulty() {
            if j + 1 < m.units.len() {
                m.units.truncate(j + 1);
                changed = true;
            }
        }
    }
    if changed {
        Some(out)
    } else {
        None
    }
}

fn differ(a: &Out, b: &Out) -> Option<&'static str> {
    if a.handlers() != b.handlers() {
        return Some("handlers");
    }
    if a.responses() != b.responses() {
        return Some("responses");
    }
    if a.errors() != b.errors() {
        return Some("errors");
    }
    None
}

/// On the real code every rewritten one-unit message must behave as the harness
/// model says its header does: a plain unit enters exactly one handler and reports
/// nothing; a unit built to fail during execution reports exactly one error that
/// is not "undefined header" (its handler is entered only for handler-raised errors).
fn rewritten_is_valid(rw: &[Msg], o: &Out) -> bool {
    let mut enters = vec![0u32; rw.len()];
    let mut errs: Vec<Vec<microscpi::Error>> = vec![Vec::new(); rw.len()];
    let mut cur = 0usize;
    for e in &o.events {
        match e {
            Ev::Call(k) => cur = *k as usize,
            Ev::Enter { .. } => {
                if let Some(x) = enters.get_mut(cur) {
                    *x += 1
                }
            }
            Ev::Err(x) => {
                if let Some(v) = errs.get_mut(cur) {
                    v.push(*x)
                }
            }
            _ => {}
        }
    }
    for (i, m) in rw.iter().enumerate() {
        let Some(u) = m.units.first() else {
            if enters[i] != 0 || !errs[i].is_empty() {
                return false;
            }
            continue;
        };
        let ok = match u.fault {
            fault::NONE => enters[i] == 1 && errs[i].is_empty(),
            fault::HANDLER => enters[i] == 1 && errs[i].len() == 1,
            _ => enters[i] == 0 && errs[i].len() == 1 && errs[i][0] != microscpi::Error::UndefinedHeader,
        };
        if !ok {
            return false;
        }
    }
    true
}

fn bytes_have_inner_newline(msgs: &[Msg]) -> bool {
    msgs.iter().any(|m| {
        let b = m.render();
        b[..b.len() - 1].contains(&b'\n')
    })
}

fn need_n(msgs: &[Msg]) -> usize {
    let mut need = 1;
    for m in msgs {
        need = need.max(m.render().len());
        let q = m.units.iter().filter(|u| u.query).count();
        need = need.max(26 * q);
    }
    need
}

impl Prop for C02T {
    fn id(&self) -> &'static str {
        "C02"
    }
    fn budget(&self, thorough: bool) -> u64 {
        if thorough { 10_000_000 } else { 1_000_000 }
    }
    fn generate(&self, seed: u64, _thorough: bool) -> Scenario {
        let mut rng = Rng::new(seed);
        if rng.chance(1, 20) {
            // "Every message terminator resets the path" also after process had to discard
            // a message that does not fit its buffer: units of that message ran and moved the
            // path, its tail overflowed, and what follows the discarded bytes is a message
            // of its own (hand-written tree t0; raw stream, not an AST).
            let iface = 0;
            let ns: Vec<usize> = IFACES[iface].ns.iter().copied().filter(|&n| (16..=64).contains(&n)).collect();
            let (first, fin) = *rng.pick(&[("SYST:FOO", "BAR"), ("SYST:SUB:FOO", "BAR"), ("SYST:SUB:FOO", "FOO"), ("SYSTEM:SUB:BAR", "BAR"), ("SYSTEM:BAR", "FOO")]);
            // the first unit and the carrier up to its payload newline must fit the buffer
            let ns: Vec<usize> = ns.into_iter().filter(|&n| n >= first.len() + 1 + 7).collect();
            let n = *rng.pick(&ns);
            let mut carrier = b"STR \"a\n".to_vec();
            while carrier.len() < n {
                carrier.push(*rng.pick(b"pq ;,"));
            }
            let mut stream = first.as_bytes().to_vec();
            stream.push(b';');
            stream.extend_from_slice(&carrier);
            stream.extend_from_slice(fin.as_bytes());
            stream.push(b'\n');
            let mut sc = Scenario { prop: "C02".into(), seed, iface, cap: 0, n, stream, ..Default::default() };
            sc.set("overflow_relative", fin.len() as i64);
            let b = sc.stream.clone();
            sc.scheds.push(gen::sched(&mut rng, &b));
            sc.scheds.push(gen::sched(&mut rng, &b));
            return sc;
        }
        let (iface, cap) = pick_iface(&mut rng, &[Family::Tree]);
        let m = simcore::spec::model(iface);
        let k = rng.range(1, 6);
        let max_units = rng.range(1, 5);
        // a quarter of the histories carry separators and newlines inside string /
        // block payloads, so that a message is continued by a later read under process
        let pay = if rng.chance(1, 4) { Payloads::SpecialNl } else { Payloads::Plain };
        let mut msgs = valid_history(&mut rng, &m, k, max_units, pay, true);
        // a quarter of the messages get one unit that fails during *execution* (wrong
        // parameter count, unconvertible parameter, handler error): its header is valid,
        // so it moves the path context like any other unit
        // (not in histories with newline payloads: what is skipped after an error is only
        // defined for messages whose one newline is the terminator, see C06)
        for msg in msgs.iter_mut() {
            if msg.units.is_empty() || pay == Payloads::SpecialNl || !rng.chance(1, 4) {
                continue;
            }
            let j = rng.below(msg.units.len());
            let mut ctx: Vec<String> = Vec::new();
            for u in &msg.units[..j] {
                ctx = gen::ctx_after(&ctx, u);
            }
            let kind = *rng.pick(&[fault::ARITY, fault::CONVERT, fault::HANDLER]);
            if let Some(f) = gen::make_faulty(&mut rng, m, &ctx, &msg.units[j], kind) {
                // more than MAX_ARGS parameters is rejected by the parser, not at execution
                if f.args.len() <= 10 {
                    msg.units[j] = f;
                }
            }
        }
        // one message in ten gets white space next to a ':' inside a header (the library
        // accepts it); the path rule is textual, so the rewriting carries the same spelling
        for msg in msgs.iter_mut() {
            if !rng.chance(1, 10) {
                continue;
            }
            let cands: Vec<usize> = (0..msg.units.len()).filter(|&i| msg.units[i].mnems.len() >= 2 && !msg.units[i].is_common() && msg.units[i].raw.is_none()).collect();
            if cands.is_empty() {
                continue;
            }
            let u = &mut msg.units[*rng.pick(&cands)];
            let k = rng.below(u.mnems.len() - 1);
            let ws = *rng.pick(&[" ", "  ", "\t"]);
            if rng.chance(1, 2) {
                u.mnems[k].push_str(ws); // "VOLT :LEV"
            } else {
                u.mnems[k + 1] = format!("{ws}{}", u.mnems[k + 1]); // "VOLT: LEV"
            }
        }
        // ... and one unit in twelve is followed by white space in front of its ';' / terminator
        for msg in msgs.iter_mut() {
            for u in msg.units.iter_mut() {
                if u.raw.is_none() && rng.chance(1, 12) {
                    u.ws_after = rng.pick(&[&b" "[..], b"  ", b"\t", b" \t"]).to_vec();
                }
            }
        }
        // ... lower / mixed case spellings and white space around parameter separators
        for msg in msgs.iter_mut() {
            for u in msg.units.iter_mut() {
                if u.raw.is_some() {
                    continue;
                }
                if rng.chance(1, 15) {
                    let lower = rng.chance(1, 2);
                    for mn in u.mnems.iter_mut() {
                        *mn = mn.chars().map(|c| if lower || rng.chance(1, 2) { c.to_ascii_lowercase() } else { c }).collect();
                    }
                }
                if u.args.len() >= 2 && rng.chance(1, 10) {
                    let k = rng.below(u.args.len());
                    let pad = *rng.pick(&[&b" "[..], b"  ", b"\t"]);
                    let mut a = Vec::new();
                    if k > 0 && rng.chance(1, 2) {
                        a.extend_from_slice(pad);
                    }
                    a.extend_from_slice(&u.args[k]);
                    if k + 1 < u.args.len() && rng.chance(1, 2) {
                        a.extend_from_slice(pad);
                    }
                    u.args[k] = a;
                }
            }
        }
        let need = need_n(&msgs).max(need_n(&rewrite(&msgs)));
        let ns: Vec<usize> = IFACES[iface].ns.iter().copied().filter(|&n| n >= need).collect();
        let n = if ns.is_empty() { *IFACES[iface].ns.last().unwrap() } else { ns[rng.below(ns.len().min(3))] };
        let mut sc = Scenario { prop: "C02".into(), seed, iface, cap, n, msgs, ..Default::default() };
        if ns.is_empty() {
            // no compiled buffer size holds every message and its responses:
            // the history is only run through `run`
            sc.set("no_process", 1);
        }
        let s0 = render(&sc.msgs).0;
        let s1 = render(&rewrite(&sc.msgs)).0;
        sc.scheds.push(gen::sched(&mut rng, &s0));
        sc.scheds.push(gen::sched(&mut rng, &s1));
        let mut s2 = gen::sched(&mut rng, &s0);
        s2.chunks.clear();
        sc.scheds.push(s2);
        sc
    }
    fn check(&self, sc: &Scenario, st: &mut Stats) -> Verdict {
        if let Some(fl) = sc.knob("overflow_relative") {
            let stream = sc.bytes();
            // well formed (also after the minimiser edited it): <unit>;STR "a\n<pad> is followed
            // by the last message, and the carrier part is exactly N bytes long
            let key: &[u8] = b";STR \"a\n";
            let idx = stream.windows(key.len()).position(|w| w == key);
            let ok = match idx {
                Some(i) => stream.len() > i + 1 + fl as usize + 1 && stream.len() - (i + 1) - fl as usize - 1 == sc.n && i + key.len() <= sc.n && stream[i + key.len()..stream.len() - 1].iter().all(|b| *b != b'\n' && *b != b'"') && stream.ends_with(b"\n"),
                None => false,
            };
            if !ok {
                return Verdict::Skip("skip:scenario-not-well-formed");
            }
            // the last message alone, on a fresh interface
            let last = stream[stream.len() - fl as usize - 1..].to_vec();
            let ll = last.len();
            let alone = exec(&run_exec(sc, last, vec![0, ll], Sink::Sim(None), vec![]), st);
            if alone.unsupported || alone.crashed() || !alone.errors().is_empty() || alone.handlers().len() != 1 {
                return Verdict::Skip("skip:rewritten-history-not-valid");
            }
            let want = alone.handlers()[0].0;
            for i in 0..sc.scheds.len().max(1) {
                let o = exec(&process_exec(sc, stream.clone(), i), st);
                if o.crashed() {
                    return Verdict::Skip("skip:crashed(C05)");
                }
                let hs = o.handlers();
                // the first unit ran (it moved the path), the carrier never completed
                if hs.is_empty() {
                    return Verdict::Skip("skip:rewritten-history-not-valid");
                }
                if hs.last().map(|h| h.0) != Some(want) || hs.len() != 2 {
                    return Verdict::Violation {
                        class: "path-after-overflow".into(),
                        detail: format!("after process (N={}) discarded a message that did not fit, the next message selected handler {:?}; alone on a fresh interface it selects {want}\n    {}\n    alone:{}", sc.n, hs.last().map(|h| h.0), brief(&o), brief(&alone)),
                    };
                }
            }
            st.bump("reach:message_after_overflow_discard");
            return Verdict::Held { nontrivial: true, sig: scenario_sig(sc) };
        }
        let total_units: usize = sc.msgs.iter().map(|m| m.units.len()).sum();
        if total_units == 0 {
            return Verdict::Skip("skip:no-units");
        }
        let (orig, bounds) = render(&sc.msgs);
        let rw_msgs = rewrite(&sc.msgs);
        let (rw, _) = render(&rw_msgs);
        let susp = sc.sched(2).susp;

        // (c) rewritten history through run: must be valid on the real code
        let (_, rw_bounds) = render(&rw_msgs);
        let c_run = exec(&run_exec(sc, rw.clone(), rw_bounds.clone(), Sink::Sim(None), susp.clone()), st);
        if c_run.unsupported {
            return Verdict::Skip("skip:unsupported-configuration");
        }
        if c_run.crashed() {
            return Verdict::Skip("skip:crashed(C05)");
        }
        if !rewritten_is_valid(&rw_msgs, &c_run) {
            if std::env::var("SIM_DEBUG").is_ok() {
                println!("DEBUG rewritten: {}\n  {}", crate::scenario::show(&rw), brief(&c_run));
            }
            return Verdict::Skip("skip:rewritten-history-not-valid");
        }
        // (a) the history in one run buffer
        let a = exec(&run_exec(sc, orig.clone(), vec![0, orig.len()], Sink::Sim(None), susp.clone()), st);
        if a.crashed() {
            return Verdict::Skip("skip:crashed(C05)");
        }
        // "none" alternative: the units behind a failing unit were skipped
        let none_msgs = truncate_after_failures(&sc.msgs);
        let mut took_none = false;
        let mut c_ref = c_run.clone();
        if differ(&a, &c_run).is_some() {
            if let Some(nm) = &none_msgs {
                let rwn = rewrite(nm);
                let (rb, rbounds) = render(&rwn);
                let c_none = exec(&run_exec(sc, rb, rbounds, Sink::Sim(None), susp.clone()), st);
                if !c_none.crashed() && differ(&a, &c_none).is_none() {
                    took_none = true;
                    c_ref = c_none;
                    st.bump("reach:rest_of_message_skipped_after_execution_error");
                }
            }
        }
        let c_run = c_ref;
        if let Some(what) = differ(&a, &c_run) {
            return Verdict::Violation {
                class: "path-context-run".into(),
                detail: format!("{what} of the compound history differ from its absolute one-unit-per-message rewriting (run)\n    written  : {}\n    rewritten: {}\n    got      :{}\n    expected :{}", crate::scenario::show(&orig), crate::scenario::show(&rw), brief(&a), brief(&c_run)),
            };
        }
        // ordering: one unit at a time; the response bytes of a unit are written
        // after its handler returned and before the next handler is entered, i.e. no
        // writer activity is ever seen while a handler is running (whether and when
        // the writer is flushed is C04's subject)
        {
            let mut in_handler = false;
            for e in &a.events {
                match e {
                    Ev::Enter { .. } => {
                        if in_handler {
                            return Verdict::Violation {
                                class: "unit-order".into(),
                                detail: format!("a handler was entered while the previous one had not returned:{}", brief(&a)),
                            };
                        }
                        in_handler = true;
                    }
                    Ev::Exit { .. } => in_handler = false,
                    Ev::WWrite(_) | Ev::WFlush => {
                        if in_handler {
                            return Verdict::Violation { class: "unit-order".into(), detail: format!("response bytes written / flushed while a handler was running:{}", brief(&a)) };
                        }
                    }
                    _ => {}
                }
            }
            // and every unit's response precedes the next unit: per unit responses of the
            // compound history equal those of the one-unit-per-message rewriting, in order
            let per_unit = |o: &Out| -> Vec<Vec<u8>> {
                let mut v: Vec<Vec<u8>> = Vec::new();
                for e in &o.events {
                    match e {
                        Ev::Enter { .. } => v.push(Vec::new()),
                        Ev::WWrite(d) => {
                            if let Some(l) = v.last_mut() {
                                l.extend_from_slice(d)
                            }
                        }
                        _ => {}
                    }
                }
                v
            };
            if per_unit(&a) != per_unit(&c_run) {
                return Verdict::Violation { class: "unit-order".into(), detail: format!("response bytes are not written between the unit that produced them and the next unit:{}", brief(&a)) };
            }
        }
        // (d) message independence: each message alone on a fresh interface
        {
            let mut hs = Vec::new();
            let mut rs = Vec::new();
            let mut es = Vec::new();
            let mut outs = Vec::new();
            for w in bounds.windows(2) {
                let piece = orig[w[0]..w[1]].to_vec();
                let l = piece.len();
                outs.push(exec(&run_exec(sc, piece, vec![0, l], Sink::Sim(None), vec![]), st));
            }
            for o in &outs {
                hs.extend(o.handlers());
                rs.extend(o.responses());
                es.extend(o.errors());
            }
            if hs != a.handlers() || rs != a.responses() || es != a.errors() {
                return Verdict::Violation {
                    class: "message-not-independent".into(),
                    detail: format!("a message behaves differently after other messages than alone on a fresh interface\n    history :{}\n    alone   :{}", brief(&a), outs.iter().map(brief).collect::<Vec<_>>().join(" /")),
                };
            }
        }
        // (b) through process, against the rewritten history through process
        if !sc.flag("no_process") && need_n(&sc.msgs).max(need_n(&rw_msgs)) <= sc.n {
            st.bump("reach:compared_through_process");
            let (rw, rw_msgs) = if took_none {
                let nm = rewrite(none_msgs.as_ref().unwrap());
                (render(&nm).0, nm)
            } else {
                (rw.clone(), rw_msgs.clone())
            };
            let c_proc = exec(&process_exec(sc, rw.clone(), 1), st);
            let b = exec(&process_exec(sc, orig.clone(), 0), st);
            if b.unsupported || c_proc.unsupported {
                return Verdict::Skip("skip:unsupported-configuration");
            }
            if b.crashed() || c_proc.crashed() {
                return Verdict::Skip("skip:crashed(C05)");
            }
            let n_faulty = rw_msgs.iter().filter(|m| m.faulty().is_some()).count();
            let n_enter = rw_msgs.iter().filter(|m| m.units.first().map(|u| matches!(u.fault, fault::NONE | fault::HANDLER)).unwrap_or(false)).count();
            if c_proc.errors().len() != n_faulty || c_proc.handlers().len() != n_enter {
                st.bump("skip:rewritten-history-not-valid-in-process");
            } else if let Some(what) = differ(&b, &c_proc) {
                return Verdict::Violation {
                    class: "path-context-process".into(),
                    detail: format!("{what} of the compound history differ from its absolute rewriting (process, N={})\n    written  : {}\n    rewritten: {}\n    got      :{}\n    expected :{}", sc.n, crate::scenario::show(&orig), crate::scenario::show(&rw), brief(&b), brief(&c_proc)),
                };
            }
        }
        // non-trivial: a relative unit after a compound header and a ':' reset or '*' unit
        let mut rel = false;
        let mut reset = false;
        for m in &sc.msgs {
            let mut ctx: Vec<String> = Vec::new();
            for (i, u) in m.units.iter().enumerate() {
                if i > 0 && !u.colon && !u.is_common() && !ctx.is_empty() {
                    rel = true;
                }
                if i > 0 && (u.colon || u.is_common()) {
                    reset = true;
                }
                ctx = gen::ctx_after(&ctx, u);
            }
        }
        if rel {
            st.bump("reach:relative_unit_below_root");
        }
        if sc.msgs.iter().any(|m| m.faulty().map(|j| j + 1 < m.units.len()).unwrap_or(false)) {
            st.bump("reach:unit_after_a_unit_that_failed_in_execution");
        }
        if sc.msgs.iter().any(|m| m.units.iter().any(|u| u.mnems.iter().any(|x| x.contains(' ') || x.contains('\t')))) {
            st.bump("reach:white_space_next_to_a_colon");
        }
        if sc.msgs.iter().any(|m| m.units.is_empty()) {
            st.bump("reach:blank_message");
        }
        if rel && bytes_have_inner_newline(&sc.msgs) {
            st.bump("reach:relative_unit_in_message_with_payload_newline");
        }
        if sc.msgs.iter().any(|m| m.semi && !m.units.is_empty()) {
            st.bump("reach:message_ending_in_semicolon");
        }
        Verdict::Held { nontrivial: rel && reset, sig: scenario_sig(sc) }
    }
    fn rule(&self) -> &'static str {
        "one scenario = (tree interface, history of 1..6 messages of 1..5 valid units written relative / absolute / common, blank messages and trailing ';' interleaved, N, read and suspension schedules); executed whole through run, through process, message by message on fresh interfaces, and as its absolute one-unit-per-message rewriting; distinct = distinct hash of (interface, N, bytes, schedules); non-trivial = contains a relative unit resolved below the root AND a ':'-reset or '*' unit after the first unit"
    }
    fn assumptions(&self) -> Vec<&'static str> {
        vec![
            "spelling (case, short/long form, white space) is held canonical; it is C01/C11's subject",
            "the rewritten history must execute without error on the real code, otherwise the scenario is skipped (header matching itself is C01's subject)",
            "N is chosen large enough for every message and its responses",
        ]
    }
    fn probes(&self) -> Vec<&'static str> {
        vec!["reach:relative_unit_below_root", "reach:message_after_overflow_discard", "reach:unit_after_a_unit_that_failed_in_execution", "reach:relative_unit_in_message_with_payload_newline", "reach:blank_message", "reach:message_ending_in_semicolon", "reach:compared_through_process", "fired:suspension"]
    }
}
