//! Pieces shared by several property generators.
use simcore::rng::Rng;
use simcore::spec::{Family, Model, IFACES};

use crate::gen::{self, MsgOpts, Payloads, UnitOpts};
use crate::scenario::{render, Msg};

pub fn pick_iface(rng: &mut Rng, families: &[Family]) -> (usize, usize) {
    let cands: Vec<usize> = IFACES.iter().filter(|i| families.contains(&i.family)).map(|i| i.index).collect();
    let iface = *rng.pick(&cands);
    let cap = *rng.pick(IFACES[iface].caps);
    (iface, cap)
}

pub fn pick_n(rng: &mut Rng, iface: usize, at_least: usize) -> Option<usize> {
    let ns: Vec<usize> = IFACES[iface].ns.iter().copied().filter(|&n| n >= at_least).collect();
    if ns.is_empty() {
        None
    } else if rng.chance(1, 2) {
        // bias to the tightest fits
        Some(ns[rng.below(ns.len().min(2))])
    } else {
        Some(*rng.pick(&ns))
    }
}

/// a history of valid messages
pub fn valid_history(rng: &mut Rng, m: &Model, n_msgs: usize, max_units: usize, pay: Payloads, blank: bool) -> Vec<Msg> {
    let o = MsgOpts { max_units, unit: UnitOpts { payloads: pay, allow_fail: false, allow_common: true }, blank };
    (0..n_msgs).map(|_| gen::valid_msg(rng, m, &o)).collect()
}

/// A message of queries whose responses add up to exactly `target` bytes (if the
/// interface has an identification query and a short numeric query), so that the
/// N-byte response buffer of `process` is filled exactly, or misses by one.
pub fn response_fill_units(rng: &mut Rng, m: &Model, target: usize) -> Option<Msg> {
    use crate::scenario::Unit;
    use simcore::spec::R;
    let idn = m.spelled.iter().find(|s| m.decl(s.decl).ret == R::Idn)?;
    let hids: Vec<&simcore::spec::Spelled> = m.spelled.iter().filter(|s| m.decl(s.decl).ret == R::Hid && m.decl(s.decl).params.is_empty() && (s.path.len() == 1)).collect();
    if hids.is_empty() {
        return None;
    }
    let unit_of = |sp: &simcore::spec::Spelled| Unit {
        colon: !sp.path[0].starts_with('*'),
        mnems: sp.path.iter().map(|x| x.to_string()).collect(),
        query: true,
        ..Default::default()
    };
    let idn_len = simcore::world::IDN.len() + 3; // quotes + newline
    let mut units: Vec<Unit> = Vec::new();
    let mut left = target as i64;
    while left >= idn_len as i64 && rng.chance(3, 4) {
        units.push(unit_of(idn));
        left -= idn_len as i64;
    }
    let mut guard = 0;
    while left > 0 && guard < 40 {
        guard += 1;
        let h = *rng.pick(&hids);
        let l = m.decl(h.decl).hid.to_string().len() as i64 + 1;
        if l > left {
            // try to find one that fits exactly
            if let Some(x) = hids.iter().find(|x| m.decl(x.decl).hid.to_string().len() as i64 + 1 == left) {
                units.push(unit_of(x));
            }
            break;
        }
        units.push(unit_of(h));
        left -= l;
    }
    if units.is_empty() {
        return None;
    }
    for i in (1..units.len()).rev() {
        let j = rng.below(i + 1);
        units.swap(i, j);
    }
    Some(Msg { units, semi: false, lead: vec![], trail: vec![] })
}

pub fn response_fill_msg(rng: &mut Rng, m: &Model, target: usize) -> Option<Vec<u8>> {
    response_fill_units(rng, m, target).map(|m| m.render())
}

/// byte stream of one of the classes of DESIGN 4.2
pub fn any_stream(rng: &mut Rng, m: &Model, n: usize, max: usize) -> (Vec<u8>, &'static str) {
    match rng.below(14) {
        13 => {
            // numeric literal fuzz: long digit strings, boundary exponents, blanks next to
            // the exponent marker, signs and dots in odd places - as arguments of handlers
            // that take numbers
            use simcore::spec::P;
            let nums: Vec<&simcore::spec::Spelled> = m.spelled.iter().filter(|sp| m.decl(sp.decl).params.iter().any(|p| !matches!(p, P::Str | P::Blk | P::Bool))).collect();
            let mut s = Vec::new();
            for _ in 0..rng.range(1, 3) {
                if nums.is_empty() {
                    break;
                }
                let sp = *rng.pick(&nums);
                let d = m.decl(sp.decl);
                s.extend_from_slice(sp.path.join(":").as_bytes());
                if d.query {
                    s.push(b'?');
                }
                for (i, _p) in d.params.iter().enumerate() {
                    s.push(if i == 0 { b' ' } else { b',' });
                    let mut lit: Vec<u8> = Vec::new();
                    if rng.chance(1, 3) {
                        lit.push(*rng.pick(b"+-"));
                    }
                    let nd = *rng.pick(&[1usize, 1, 3, 9, 17, 20, 33, 40]);
                    for k in 0..nd {
                        lit.push(if k == 0 { *rng.pick(b"123456789") } else { *rng.pick(b"0000123456789") });
                    }
                    if rng.chance(1, 2) {
                        lit.push(b'.');
                        for _ in 0..rng.below(12) {
                            lit.push(*rng.pick(b"0123456789"));
                        }
                    }
                    if rng.chance(2, 3) {
                        if rng.chance(1, 4) {
                            lit.push(*rng.pick(b" \t"));
                        }
                        lit.push(*rng.pick(b"Ee"));
                        if rng.chance(1, 4) {
                            lit.push(b' ');
                        }
                        let e: i64 = *rng.pick(&[0i64, 1, -1, 37, 38, 39, -45, 307, 308, 309, -324, 32000, 32001, -32000, -32001, 32767, 32768, -32767, -32768, -32769, 65536, 99999, -99999, 2147483647, -2147483648]);
                        lit.extend_from_slice(if e >= 0 && rng.chance(1, 2) { format!("+{e}") } else { format!("{e}") }.as_bytes());
                    }
                    s.extend_from_slice(&lit);
                }
                s.push(b'\n');
            }
            s.truncate(max.max(160));
            (s, "numeric-fuzz")
        }
        12 => {
            // a long definite-length block (hundreds of bytes) and a long string
            let mut s = Vec::new();
            let head: &[u8] = if m.spelled.iter().any(|sp| sp.path == ["BLK"]) { b"BLK " } else { b"ZOO:BLK? " };
            s.extend_from_slice(head);
            let len = *rng.pick(&[200usize, 255, 256, 257, 300, 511, 512, 1000]);
            let payload: Vec<u8> = (0..len).map(|_| *rng.pick(b"abcdefgh;,:# \n")).collect();
            s.extend_from_slice(&gen::block(&payload, rng.below(3)));
            s.push(b'\n');
            if rng.chance(1, 2) {
                let h = valid_history(rng, m, 1, 2, Payloads::Plain, false);
                s.extend_from_slice(&render(&h).0);
            }
            (s, "long-block")
        }
        11 => {
            // responses that fill the N byte response buffer exactly, or miss by one
            let target = (n as i64 + *rng.pick(&[0i64, 0, -1, 1])).max(1) as usize;
            let mut s = Vec::new();
            if rng.chance(1, 2) {
                let h = valid_history(rng, m, 1, 2, Payloads::Plain, false);
                s = render(&h).0;
            }
            match response_fill_msg(rng, m, target) {
                Some(x) => s.extend_from_slice(&x),
                None => s.extend_from_slice(&gen::arbitrary_stream(rng, m, max.min(40))),
            }
            let h = valid_history(rng, m, 1, 2, Payloads::Plain, false);
            s.extend_from_slice(&render(&h).0);
            (s, "response-fill")
        }
        10 => {
            // more parameters than supported: a header followed by 8..14 arguments
            let mut s = Vec::new();
            for _ in 0..rng.range(1, 2) {
                let sp = rng.pick(&m.spelled);
                s.extend_from_slice(sp.path.join(":").as_bytes());
                if m.decl(sp.decl).query {
                    s.push(b'?');
                }
                s.push(b' ');
                let k = rng.range(8, 14);
                for i in 0..k {
                    if i > 0 {
                        s.push(b',');
                    }
                    s.extend_from_slice(*rng.pick(&[&b"1"[..], b"ON", b"\"x\"", b"#11a", b"2.5", b"#HFF"]));
                }
                s.push(if rng.chance(1, 4) { b';' } else { b'\n' });
            }
            s.truncate(max.max(40));
            (s, "many-arguments")
        }
        0..=3 => (gen::arbitrary_stream(rng, m, max), "arbitrary"),
        4..=5 => {
            let k = rng.range(1, 5);
            let h = valid_history(rng, m, k, 4, Payloads::SpecialNl, true);
            (render(&h).0, "by-construction")
        }
        6..=7 => {
            let k = rng.range(1, 5);
            let h = valid_history(rng, m, k, 4, Payloads::Special, true);
            let mut s = render(&h).0;
            gen::mutate(rng, &mut s);
            (s, "mutated")
        }
        _ => {
            // oversize: a message of length N-1, N, N+1 or much longer than N
            let mut s = Vec::new();
            if rng.chance(1, 2) {
                let h = valid_history(rng, m, 1, 2, Payloads::Plain, false);
                s = render(&h).0;
            }
            let target = match rng.below(4) {
                0 => n.saturating_sub(1),
                1 => n,
                2 => n + 1,
                _ => n * 2 + rng.below(5),
            }
            .min(max.max(8));
            // pad a valid unit with a long string argument up to the target length
            let head: &[u8] = if m.spelled.iter().any(|sp| sp.path == ["STR"]) { b"STR \"" } else { b"ECHO? \"" };
            // (sometimes with white space in front, which counts towards the buffer as well)
            let mut msg = if rng.chance(1, 3) { vec![b' '; rng.range(1, 3)] } else { vec![] };
            msg.extend_from_slice(head);
            // (sometimes with newlines inside the payload, so that a terminator-looking
            // byte sits in the part that overflows the buffer)
            let alphabet: &[u8] = if rng.chance(1, 3) { b"abcdefgh;,: \n\n" } else { b"abcdefgh;,: " };
            while msg.len() + 2 < target {
                msg.push(*rng.pick(alphabet));
            }
            msg.extend_from_slice(b"\"\n");
            s.extend_from_slice(&msg);
            let k = rng.range(1, 2);
            let h = valid_history(rng, m, k, 3, Payloads::Plain, false);
            s.extend_from_slice(&render(&h).0);
            (s, "oversize")
        }
    }
}
