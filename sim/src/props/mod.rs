//! One module per claimed property: scenario generator and oracle.
use simcore::exec::{Exec, Mode, Out, Sink};
use simcore::rng::Fnv;
use simcore::world::Ev;

use crate::runner::{Prop, Stats};
use crate::scenario::Scenario;

pub mod common;
pub mod c02;
pub mod c04;
pub mod c05;
pub mod c06;
pub mod c07;
pub mod c08;
pub mod c09;
pub mod c10;
pub mod c13;

pub fn all() -> Vec<&'static dyn Prop> {
    vec![&c02::C02, &c04::C04, &c05::C05, &c06::C06, &c07::C07, &c08::C08, &c09::C09, &c10::C10, &c13::C13]
}

pub fn by_id(id: &str) -> Option<&'static dyn Prop> {
    all().into_iter().find(|p| p.id() == id)
}

/// Executes on the real code and accounts for what happened (fault kinds
/// that actually fired, reach probes, abstract states).
pub fn exec(ex: &Exec, st: &mut Stats) -> Out {
    let o = crate::dispatch::execute(ex);
    st.bump("executions");
    if crate::runner::DIGEST_EVENTS.load(std::sync::atomic::Ordering::Relaxed) {
        let mut h = Fnv::new();
        h.bytes(format!("{:?}|{:?}|{:?}|{:?}|{}|{}|{}", o.events, o.results, o.remainders, o.sink_bytes, o.polls, o.injected, o.lib_allocs).as_bytes());
        st.ev_digest = st.ev_digest.wrapping_add(h.finish());
    }
    st.add("polls", o.polls);
    st.add("transport_calls", o.tcalls as u64);
    st.add("fired:suspension", o.injected);
    for e in &o.events {
        if matches!(e, Ev::Err(microscpi::Error::TooMuchData) | Ev::Err(microscpi::Error::SystemError)) {
            st.bump("reach:response_did_not_fit");
        }
    }
    let mut prev_fill = false;
    let mut prev_last_nl = true;
    let mut delivered = 0usize;
    for e in &o.events {
        match e {
            Ev::TRead { room, got, ok } => {
                if *ok {
                    if *got == 0 {
                        st.bump("fired:empty_read");
                    }
                    if *got == 1 {
                        st.bump("fired:one_byte_read");
                    }
                    if *got == *room && *room > 0 {
                        st.bump("fired:exact_fill_read");
                    }
                    if prev_fill && *room == ex.n && !prev_last_nl {
                        st.bump("reach:overflow_reset");
                    }
                    if *room < ex.n {
                        st.bump("reach:carry_over");
                    }
                    prev_fill = *got == *room && *room > 0;
                    delivered += *got;
                    if *got > 0 {
                        prev_last_nl = ex.stream.get(delivered - 1) == Some(&b'\n');
                    }
                    let mut h = Fnv::new();
                    h.u64(ex.n as u64);
                    h.u64(*room as u64);
                    h.u64((*got).min(3) as u64);
                    h.u8(prev_last_nl as u8);
                    st.states.push(h.finish());
                } else if o.results.iter().any(|r| matches!(r, Some(Err(simcore::exec::Tok::Fault(_))))) {
                    st.bump("fired:transport_error");
                }
            }
            Ev::TWrite { ok: false, .. } | Ev::TFlush { ok: false } => st.bump("fired:transport_error"),
            Ev::TWrite { data, ok: true } if data.len() == ex.n => st.bump("reach:response_exactly_fills_buffer"),
            Ev::Exit { ok: false, .. } => st.bump("fired:handler_error"),
            Ev::WFail => st.bump("fired:sink_full"),
            Ev::Err(_) => st.bump("reach:error_reported"),
            _ => {}
        }
    }
    if st.states.len() > 200_000 {
        st.states.sort_unstable();
        st.states.dedup();
    }
    if o.results.len() > 1 {
        st.bump("fired:restart");
    }
    o
}

pub fn scenario_sig(sc: &Scenario) -> u64 {
    let mut h = Fnv::new();
    h.u64(sc.iface as u64);
    h.u64(sc.cap as u64);
    h.u64(sc.n as u64);
    h.bytes(&sc.bytes());
    for s in &sc.scheds {
        h.u64(s.chunks.len() as u64);
        for &c in &s.chunks {
            h.u64(c as u64);
        }
        h.bytes(&s.susp);
    }
    for (k, v) in &sc.knobs {
        h.bytes(k.as_bytes());
        h.u64(*v as u64);
    }
    h.finish()
}

pub fn process_exec(sc: &Scenario, stream: Vec<u8>, sched: usize) -> Exec {
    let mut ex = Exec::new(sc.iface, sc.cap, sc.n, Mode::Process, stream);
    let s = sc.sched(sched);
    ex.chunks = s.chunks;
    ex.susp = s.susp;
    // half of the scenarios use a transport whose read is not cancel-safe (schedule 0, the
    // reference, never suspends, so it is unaffected)
    ex.read_takes_first = sc.flag("take_first") && sched > 0;
    ex
}

pub fn run_exec(sc: &Scenario, stream: Vec<u8>, splits: Vec<usize>, sink: Sink, susp: Vec<u8>) -> Exec {
    let mut ex = Exec::new(sc.iface, sc.cap, sc.n, Mode::Run { sink, splits }, stream);
    ex.susp = susp;
    ex
}

/// boundaries [0, after 1st '\n', ...] of the newline terminated part
pub fn newline_splits(stream: &[u8]) -> Vec<usize> {
    let mut v = vec![0];
    for (i, &b) in stream.iter().enumerate() {
        if b == b'\n' {
            v.push(i + 1);
        }
    }
    v
}

/// short rendering of what an execution did, for violation details
pub fn brief(o: &Out) -> String {
    let mut s = String::new();
    for e in &o.events {
        match e {
            Ev::Enter { h, args } => s.push_str(&format!(" H{h}{}", if args.is_empty() { String::new() } else { format!("{args:?}") })),
            Ev::Err(x) => s.push_str(&format!(" E({})", x.number())),
            Ev::TWrite { data, .. } => s.push_str(&format!(" W[{}]", crate::scenario::show(data))),
            Ev::WWrite(d) => s.push_str(&format!(" w[{}]", crate::scenario::show(d))),
            Ev::WFlush | Ev::TFlush { .. } => s.push_str(" F"),
            Ev::TRead { room, got, ok } => s.push_str(&format!(" R{room}/{got}{}", if *ok { "" } else { "!" })),
            Ev::Call(k) => s.push_str(&format!(" |{k}")),
            _ => {}
        }
    }
    if let Some(p) = &o.panic {
        s.push_str(&format!(" PANIC({p})"));
    }
    if !o.sink_bytes.is_empty() {
        s.push_str(&format!(" sink[{}]", crate::scenario::show(&o.sink_bytes)));
    }
    s
}
