//! C04 - responses are complete, well-formed and decode to the returned value.
//!
//! Observed at the writer seam: bytes and flush calls seen by the `Write`
//! implementation handed to `run` (three writers), and `Adapter::write` bytes
//! under `process`.
use simcore::exec::{Out, Sink};
use simcore::rng::Rng;
use simcore::spec::{DeclSpec, Family, Model, IFACES, R};
use simcore::world::{Arg, Ev};

use super::{brief, exec, process_exec, run_exec, scenario_sig};
use crate::gen::{self, block, quote};
use crate::runner::{Prop, Stats, Verdict};
use crate::scenario::{fault, render, show, Msg, Scenario, Unit};

pub struct C04T;
pub static C04: C04T = C04T;

// ---------------------------------------------------------------- values

#[derive(Clone, Debug, PartialEq)]
enum V {
    Int(i128),
    F32(u32),
    F64(u64),
    Bool(bool),
    Str(Vec<u8>),
    Chars(Vec<u8>),
    Blk(Vec<u8>),
    Seq(Vec<V>),
    Unit,
}

fn a_int(a: &Arg) -> Option<i128> {
    match a {
        Arg::U(x) => Some(*x as i128),
        Arg::I(x) => Some(*x as i128),
        _ => None,
    }
}
fn a_bytes(a: &Arg) -> Option<Vec<u8>> {
    match a {
        Arg::S(b) | Arg::Blk(b) => Some(b.clone()),
        _ => None,
    }
}
fn a_bool(a: &Arg) -> Option<bool> {
    match a {
        Arg::B(b) => Some(*b),
        _ => None,
    }
}

/// The value the handler returns for the arguments it *received* (the
/// mapping is harness code, see ifgen ret_body).  None = the handler fails.
fn expected(d: &DeclSpec, hid: u16, args: &[Arg]) -> Option<V> {
    let utf8 = |b: Vec<u8>| if std::str::from_utf8(&b).is_ok() { Some(b) } else { None };
    Some(match d.ret {
        R::Unit | R::ZUnitQ => V::Unit,
        R::Hid => V::Int(hid as i128),
        R::Big => V::Int(6000 * a_int(args.first()?)?),
        R::Idn => V::Str(simcore::world::IDN.as_bytes().to_vec()),
        R::Fail | R::FailQ => return None,
        R::EchoU32 | R::ZU8 | R::ZI8 | R::ZU16 | R::ZI16 | R::ZU32 | R::ZI32 | R::ZU64 | R::ZI64 | R::ZUsize | R::ZIsize => V::Int(a_int(args.first()?)?),
        R::ZF32 => V::F32(a_int(args.first()?)? as u32),
        R::ZF64 => V::F64(a_int(args.first()?)? as u64),
        R::ZBool => V::Bool(a_bool(args.first()?)?),
        R::EchoStr | R::ZStr | R::ZSStr => V::Str(a_bytes(args.first()?)?),
        R::ZStrB | R::ZSStrB => V::Str(utf8(a_bytes(args.first()?)?)?),
        R::ZHStr => {
            let b = a_bytes(args.first()?)?;
            if b.len() > 64 {
                return None;
            }
            V::Str(b)
        }
        R::ZHStrB => {
            let b = utf8(a_bytes(args.first()?)?)?;
            if b.len() > 64 {
                return None;
            }
            V::Str(b)
        }
        R::ZChar => V::Chars(a_bytes(args.first()?)?),
        R::ZBlk => V::Blk(a_bytes(args.first()?)?),
        R::ZErr => {
            let e = simcore::world::error_value(a_int(args.first()?)? as i16);
            let text: &'static str = e.into();
            V::Seq(vec![V::Int(e.number() as i128), V::Str(text.as_bytes().to_vec())])
        }
        R::ZTup2 => V::Seq(vec![V::Int(a_int(args.first()?)?), V::F64(a_int(args.get(1)?)? as u64)]),
        R::ZTup3 => V::Seq(vec![V::Str(a_bytes(args.first()?)?), V::Bool(a_bool(args.get(1)?)?), V::Int(a_int(args.get(2)?)?)]),
        R::ZTup4 => V::Seq(vec![
            V::Int(a_int(args.first()?)?),
            V::F32(a_int(args.get(1)?)? as u32),
            V::Blk(a_bytes(args.get(2)?)?),
            V::Str(a_bytes(args.get(3)?)?),
        ]),
        R::ZNest => V::Seq(vec![
            V::Int(a_int(args.first()?)?),
            V::Bool(a_bool(args.get(1)?)?),
            V::Int(a_int(args.get(2)?)?),
            V::Str(a_bytes(args.get(3)?)?),
        ]),
        R::ZSliceI16 => V::Seq(a_bytes(args.first()?)?.chunks_exact(2).map(|c| V::Int(i16::from_le_bytes([c[0], c[1]]) as i128)).collect()),
        R::ZHVecU32 => V::Seq(a_bytes(args.first()?)?.chunks_exact(4).take(8).map(|c| V::Int(u32::from_le_bytes([c[0], c[1], c[2], c[3]]) as i128)).collect()),
        R::ZHVecF64 => V::Seq(
            a_bytes(args.first()?)?
                .chunks_exact(8)
                .take(4)
                .map(|c| {
                    let mut b = [0u8; 8];
                    b.copy_from_slice(c);
                    V::F64(u64::from_le_bytes(b))
                })
                .collect(),
        ),
        R::ZHVecBlk => V::Seq(vec![V::Blk(a_bytes(args.first()?)?), V::Blk(a_bytes(args.get(1)?)?), V::Blk(a_bytes(args.get(2)?)?)]),
        R::ZTupSlice => V::Seq(vec![
            V::Int(a_int(args.first()?)?),
            V::Seq(a_bytes(args.get(1)?)?.chunks_exact(2).map(|c| V::Int(i16::from_le_bytes([c[0], c[1]]) as i128)).collect()),
        ]),
        R::ZHVecStr => {
            let (a, b) = (a_bytes(args.first()?)?, a_bytes(args.get(1)?)?);
            if a.len() > 32 || b.len() > 32 {
                return None;
            }
            V::Seq(vec![V::Str(a), V::Str(b)])
        }
    })
}

// ---------------------------------------------------------------- decoder

fn take_number_token(b: &[u8], pos: usize) -> usize {
    let mut i = pos;
    while i < b.len() && (b[i].is_ascii_digit() || matches!(b[i], b'+' | b'-' | b'.' | b'e' | b'E')) {
        i += 1;
    }
    i
}

/// NR1 / NR2 / NR3: [sign] digits [. digits] [E [sign] digits]  (or . digits)
fn is_decimal_real(t: &[u8]) -> bool {
    let mut i = 0;
    if i < t.len() && (t[i] == b'+' || t[i] == b'-') {
        i += 1;
    }
    let d0 = i;
    while i < t.len() && t[i].is_ascii_digit() {
        i += 1;
    }
    let mut digits = i - d0;
    if i < t.len() && t[i] == b'.' {
        i += 1;
        let d1 = i;
        while i < t.len() && t[i].is_ascii_digit() {
            i += 1;
        }
        digits += i - d1;
    }
    if digits == 0 {
        return false;
    }
    if i < t.len() && (t[i] == b'e' || t[i] == b'E') {
        i += 1;
        if i < t.len() && (t[i] == b'+' || t[i] == b'-') {
            i += 1;
        }
        let d2 = i;
        while i < t.len() && t[i].is_ascii_digit() {
            i += 1;
        }
        if i == d2 {
            return false;
        }
    }
    i == t.len()
}

/// Independent decoder: checks that `b[pos..]` starts with the IEEE 488.2
/// response data for `v` and advances `pos` behind it.
fn decode(v: &V, b: &[u8], pos: &mut usize) -> Result<(), String> {
    match v {
        V::Unit => Ok(()),
        V::Int(x) => {
            let end = take_number_token(b, *pos);
            let t = std::str::from_utf8(&b[*pos..end]).map_err(|_| "not ascii")?;
            let body = t.strip_prefix('+').unwrap_or(t);
            let digits = body.strip_prefix('-').unwrap_or(body);
            if digits.is_empty() || !digits.bytes().all(|c| c.is_ascii_digit()) {
                return Err(format!("`{t}` is not NR1 integer response data"));
            }
            match body.parse::<i128>() {
                Ok(y) if y == *x => {
                    *pos = end;
                    Ok(())
                }
                _ => Err(format!("`{t}` does not decode to {x}")),
            }
        }
        V::F32(bits) => {
            let f = f32::from_bits(*bits);
            let end = take_number_token(b, *pos);
            let t = &b[*pos..end];
            let ts = String::from_utf8_lossy(t).to_string();
            let ok = if f.is_nan() {
                t == b"9.91E+37"
            } else if f.is_infinite() {
                t == if f > 0.0 { &b"9.9E+37"[..] } else { &b"-9.9E+37"[..] }
            } else {
                is_decimal_real(t) && ts.parse::<f32>().map(|g| g.to_bits() == *bits).unwrap_or(false)
            };
            if ok {
                *pos = end;
                Ok(())
            } else {
                Err(format!("`{ts}` does not decode to the f32 with bits {bits:#010x} ({f:e})"))
            }
        }
        V::F64(bits) => {
            let f = f64::from_bits(*bits);
            let end = take_number_token(b, *pos);
            let t = &b[*pos..end];
            let ts = String::from_utf8_lossy(t).to_string();
            let ok = if f.is_nan() {
                t == b"9.91E+37"
            } else if f.is_infinite() {
                t == if f > 0.0 { &b"9.9E+37"[..] } else { &b"-9.9E+37"[..] }
            } else {
                is_decimal_real(t) && ts.parse::<f64>().map(|g| g.to_bits() == *bits).unwrap_or(false)
            };
            if ok {
                *pos = end;
                Ok(())
            } else {
                Err(format!("`{ts}` does not decode to the f64 with bits {bits:#018x} ({f:e})"))
            }
        }
        V::Bool(x) => {
            let want = if *x { b'1' } else { b'0' };
            if b.get(*pos) == Some(&want) {
                *pos += 1;
                Ok(())
            } else {
                Err(format!("boolean {x} encoded as {:?}", b.get(*pos).map(|c| *c as char)))
            }
        }
        V::Str(s) => {
            if b.get(*pos) != Some(&b'"') {
                return Err("string response does not start with a double quote".into());
            }
            let mut i = *pos + 1;
            let mut out = Vec::new();
            loop {
                match b.get(i) {
                    None => return Err("string response is not terminated".into()),
                    Some(b'"') => {
                        if b.get(i + 1) == Some(&b'"') {
                            out.push(b'"');
                            i += 2;
                        } else {
                            i += 1;
                            break;
                        }
                    }
                    Some(c) => {
                        out.push(*c);
                        i += 1;
                    }
                }
            }
            if out == *s {
                *pos = i;
                Ok(())
            } else {
                Err(format!("string response decodes to [{}], returned value is [{}]", show(&out), show(s)))
            }
        }
        V::Chars(s) => {
            if b.len() >= *pos + s.len() && b[*pos..*pos + s.len()] == s[..] {
                *pos += s.len();
                Ok(())
            } else {
                Err(format!("character data [{}] not found", show(s)))
            }
        }
        V::Blk(p) => {
            if b.get(*pos) != Some(&b'#') {
                return Err("block response does not start with '#'".into());
            }
            let d = match b.get(*pos + 1) {
                Some(c) if (b'1'..=b'9').contains(c) => (*c - b'0') as usize,
                other => return Err(format!("block header digit {other:?}")),
            };
            let ls = b.get(*pos + 2..*pos + 2 + d).ok_or("block header truncated")?;
            if !ls.iter().all(|c| c.is_ascii_digit()) {
                return Err("block length field is not numeric".into());
            }
            let len: usize = std::str::from_utf8(ls).unwrap().parse().map_err(|_| "block length")?;
            let data = b.get(*pos + 2 + d..*pos + 2 + d + len).ok_or("block shorter than its header says")?;
            if data == &p[..] && len == p.len() {
                *pos += 2 + d + len;
                Ok(())
            } else {
                Err(format!("block decodes to [{}], returned value is [{}]", show(data), show(p)))
            }
        }
        V::Seq(vs) => {
            for (i, x) in vs.iter().enumerate() {
                if i > 0 {
                    if b.get(*pos) != Some(&b',') {
                        return Err(format!("missing ',' between elements at offset {}", *pos));
                    }
                    *pos += 1;
                }
                decode(x, b, pos)?;
            }
            Ok(())
        }
    }
}

// ---------------------------------------------------------------- workload

const F32_BITS: &[u32] = &[0, 0x8000_0000, 0x7f80_0000, 0xff80_0000, 0x7fc0_0000, 0xffc0_0001, 0x7f80_0001, 1, 0x007f_ffff, 0x0080_0000, 0x7f7f_ffff, 0xff7f_ffff, 0x3f80_0000, 0x3dcc_cccd, 0x4b80_0000, 0x7e94_f56a];
const F64_BITS: &[u64] = &[
    0, 0x8000_0000_0000_0000, 0x7ff0_0000_0000_0000, 0xfff0_0000_0000_0000, 0x7ff8_0000_0000_0000, 0xfff8_0000_0000_0001, 0x7ff0_0000_0000_0001, 1,
    0x000f_ffff_ffff_ffff, 0x0010_0000_0000_0000, 0x7fef_ffff_ffff_ffff, 0xffef_ffff_ffff_ffff, 0x3ff0_0000_0000_0000, 0x3fb9_9999_9999_999a, 0x4340_0000_0000_0000, 0x47d2_ced3_2a16_a1b1,
];

fn f32_lit(rng: &mut Rng) -> Vec<u8> {
    let b = if rng.chance(1, 2) { *rng.pick(F32_BITS) } else { rng.next() as u32 };
    b.to_string().into_bytes()
}
fn f64_lit(rng: &mut Rng) -> Vec<u8> {
    let b = match rng.below(6) {
        0 | 1 => *rng.pick(F64_BITS),
        // values on the f32 grid (exactly representable in single precision)
        2 => (f32::from_bits(if rng.chance(1, 2) { *rng.pick(F32_BITS) } else { rng.next() as u32 }) as f64).to_bits(),
        // small integers, powers of two and of ten
        3 => match rng.below(3) {
            0 => (rng.below(1 << 20) as f64).to_bits(),
            1 => 2f64.powi(rng.below(128) as i32 - 64).to_bits(),
            _ => 10f64.powi(rng.below(40) as i32 - 20).to_bits(),
        },
        _ => rng.next(),
    };
    b.to_string().into_bytes()
}

fn str_lit(rng: &mut Rng, max: usize) -> Vec<u8> {
    let q = if rng.chance(1, 2) { b'"' } else { b'\'' };
    let nl = rng.chance(1, 6);
    quote(q, &gen::special_str_payload(rng, q, max, nl))
}

/// utf-8 payload that may contain both quote characters, as a block
fn utf8_blk(rng: &mut Rng, max: usize) -> Vec<u8> {
    let n = rng.below(max + 1);
    let mut s = String::new();
    for _ in 0..n {
        const PARTS: [&str; 14] = ["\"", "'", "\"\"", ",", ";", "a", "Z", "0", " ", "é", "€", "\u{1F600}", "#", "\\"];
        s.push_str(PARTS[rng.below(PARTS.len())]);
    }
    let mut b = s.into_bytes();
    if rng.chance(1, 12) {
        b.push(0xff); // not utf-8: the handler fails
    }
    block(&b, 0)
}

fn zoo_args(rng: &mut Rng, d: &DeclSpec) -> Vec<Vec<u8>> {
    use simcore::spec::P;
    match d.ret {
        R::ZF32 => vec![f32_lit(rng)],
        R::ZF64 => vec![f64_lit(rng)],
        R::ZStr | R::ZSStr | R::EchoStr => vec![str_lit(rng, 14)],
        R::ZHStr => vec![str_lit(rng, 14)],
        R::ZChar => {
            let n = rng.range(1, 10);
            vec![quote(b'"', &(0..n).map(|_| *rng.pick(b"ABCDEFXYZ019_")).collect::<Vec<u8>>())]
        }
        R::ZStrB | R::ZHStrB | R::ZSStrB => vec![utf8_blk(rng, 10)],
        R::ZBlk => {
            // mostly short payloads; sometimes lengths around the powers of ten, where the
            // number of length digits in the block header changes
            let max = match rng.below(14) {
                0 => return vec![block(&vec![b'a'; *rng.pick(&[9usize, 10, 11, 99, 100, 101, 109, 110])], 0)],
                1 => 130,
                // a few long ones (the answer still fits process::<1024> and the 4096 byte writer)
                2 => return vec![block(&vec![b'q'; *rng.pick(&[255usize, 256, 257, 300, 512, 600])], 0)],
                _ => 16,
            };
            let p = gen::special_blk_payload(rng, max, true);
            let pad = if rng.chance(1, 5) { rng.below(4) } else { 0 };
            vec![block(&p, pad)]
        }
        R::ZErr => vec![rng.pick(&["-100", "-113", "-222", "-350", "-400", "1234", "-5", "7", "0", "-220", "4"]).as_bytes().to_vec()],
        R::ZTup2 => vec![gen::plain_literal(rng, P::I32), f64_lit(rng)],
        R::ZTup3 => vec![str_lit(rng, 8), gen::plain_literal(rng, P::Bool), gen::plain_literal(rng, P::U8)],
        R::ZTup4 => vec![gen::plain_literal(rng, P::I64), f32_lit(rng), block(&gen::special_blk_payload(rng, 8, false), 0), str_lit(rng, 8)],
        R::ZNest => vec![gen::plain_literal(rng, P::U8), gen::plain_literal(rng, P::Bool), gen::plain_literal(rng, P::I16), str_lit(rng, 8)],
        R::ZSliceI16 => vec![block(&(0..2 * rng.below(7)).map(|_| rng.byte()).collect::<Vec<u8>>(), 0)],
        R::ZHVecU32 => vec![block(&(0..4 * rng.below(7)).map(|_| rng.byte()).collect::<Vec<u8>>(), 0)],
        R::ZHVecF64 => {
            let k = rng.below(5);
            let mut b = Vec::new();
            for _ in 0..k {
                let bits = if rng.chance(1, 2) { *rng.pick(F64_BITS) } else { rng.next() };
                b.extend_from_slice(&bits.to_le_bytes());
            }
            vec![block(&b, 0)]
        }
        R::ZHVecStr => vec![str_lit(rng, 8), str_lit(rng, 8)],
        R::ZHVecBlk => (0..3)
            .map(|_| {
                let max = if rng.chance(1, 3) { 0 } else { 5 };
                block(&gen::special_blk_payload(rng, max, true), 0)
            })
            .collect(),
        R::ZTupSlice => vec![gen::plain_literal(rng, P::U8), block(&(0..2 * rng.below(4)).map(|_| rng.byte()).collect::<Vec<u8>>(), 0)],
        R::Fail | R::FailQ => vec![gen::fail_code(rng).to_string().into_bytes()],
        _ => d.params.iter().map(|&p| gen::plain_literal(rng, p)).collect(),
    }
}

fn zoo_unit(rng: &mut Rng, m: &Model, ctx: &[String]) -> Unit {
    let ctx_refs: Vec<&str> = ctx.iter().map(|s| s.as_str()).collect();
    let rel = m.continuing(&ctx_refs);
    let (cands, colon, skip) = if !ctx.is_empty() && !rel.is_empty() && rng.chance(2, 3) { (rel, false, ctx.len()) } else { (m.continuing(&[]), !ctx.is_empty() || rng.chance(1, 3), 0) };
    let sp = &m.spelled[*rng.pick(&cands)];
    let d = m.decl(sp.decl);
    Unit { colon, mnems: sp.path[skip..].iter().map(|s| s.to_string()).collect(), query: d.query, args: zoo_args(rng, d), ..Default::default() }
}

// ---------------------------------------------------------------- oracle

/// Judges the event log of a run with the recording writer.
fn judge_writer_trace(iface: usize, o: &Out, st: &mut Stats) -> Result<(bool, bool), (String, String)> {
    let decls = IFACES[iface].decls;
    let ev = &o.events;
    let mut i = 0;
    let mut rich = false;
    let mut failure = false;
    // output is only legal directly after a successful query returned
    let mut legal_until: Option<usize> = None; // index of the WFlush that ends the current response
    while i < ev.len() {
        match &ev[i] {
            Ev::Enter { h, args } => {
                let d = &decls[*h as usize];
                let ok = match ev.get(i + 1) {
                    Some(Ev::Exit { h: h2, ok }) if h2 == h => *ok,
                    other => return Err(("unit-order".into(), format!("handler {h} entered, next event {other:?}"))),
                };
                let want = expected(d, *h, args);
                if !ok {
                    failure = true;
                    i += 2;
                    continue;
                }
                if !d.query {
                    i += 2;
                    continue;
                }
                // the handler returned Ok but an error is reported for the unit right away
                // (e.g. the response did not fit, or the arguments were rejected after the
                // call): not a successfully executed query, it must stay silent
                if matches!(ev.get(i + 2), Some(Ev::Err(_))) {
                    failure = true;
                    i += 2;
                    continue;
                }
                let Some(val) = want else {
                    return Err(("harness".into(), format!("handler {h} succeeded although the harness expected it to fail")));
                };
                // collect the response: writes up to the flush
                let mut j = i + 2;
                let mut bytes = Vec::new();
                while let Some(Ev::WWrite(d)) = ev.get(j) {
                    bytes.extend_from_slice(d);
                    j += 1;
                }
                if !matches!(ev.get(j), Some(Ev::WFlush)) {
                    return Err(("no-flush".into(), format!("response [{}] of handler {h} is not followed by a flush (next event {:?})", show(&bytes), ev.get(j))));
                }
                if bytes.last() != Some(&b'\n') {
                    return Err(("no-newline".into(), format!("response [{}] of handler {h} does not end with a newline before the flush", show(&bytes))));
                }
                let body = &bytes[..bytes.len() - 1];
                let mut pos = 0;
                if let Err(e) = decode(&val, body, &mut pos) {
                    return Err(("does-not-decode".into(), format!("handler {h} ({:?}) returned {val:?}; response [{}]: {e}", d.ret, show(&bytes))));
                }
                if pos != body.len() {
                    return Err(("trailing-bytes".into(), format!("handler {h} ({:?}) returned {val:?}; response [{}] has {} extra byte(s) after the value", d.ret, show(&bytes), body.len() - pos)));
                }
                if matches!(val, V::F32(_) | V::F64(_) | V::Str(_) | V::Blk(_)) || matches!(&val, V::Seq(x) if !x.is_empty()) {
                    rich = true;
                }
                st.bump("reach:responses_decoded");
                legal_until = Some(j);
                i = j + 1;
            }
            Ev::WWrite(d) => {
                let _ = legal_until;
                return Err(("unexpected-output".into(), format!("bytes [{}] written outside the response of a successful query (event {i})", show(d))));
            }
            Ev::WFlush => return Err(("unexpected-flush".into(), format!("flush outside the response of a successful query (event {i})"))),
            Ev::Err(_) => {
                failure = true;
                i += 1;
            }
            _ => i += 1,
        }
    }
    Ok((rich, failure))
}

impl Prop for C04T {
    fn id(&self) -> &'static str {
        "C04"
    }
    fn budget(&self, thorough: bool) -> u64 {
        if thorough { 20_000_000 } else { 2_000_000 }
    }
    fn generate(&self, seed: u64, _thorough: bool) -> Scenario {
        let mut rng = Rng::new(seed);
        let ifs = simcore::spec::ifaces_of(Family::Zoo);
        let iface = *rng.pick(&ifs);
        let m = simcore::spec::model(iface);
        let n_msgs = rng.range(1, 3);
        let mut msgs = Vec::new();
        for _ in 0..n_msgs {
            let k = rng.range(1, 3);
            let mut msg = Msg::default();
            let mut ctx: Vec<String> = Vec::new();
            for _ in 0..k {
                let mut u = zoo_unit(&mut rng, &m, &ctx);
                let next_ctx = gen::ctx_after(&ctx, &u);
                if rng.chance(1, 6) {
                    // injected failure: arity / unconvertible / undefined (query on command-only node ...)
                    let kind = *rng.pick(&[fault::UNDEFINED, fault::ARITY, fault::CONVERT]);
                    if let Some(f) = gen::make_faulty(&mut rng, &m, &ctx, &u, kind) {
                        // keep the path context intact for what follows
                        if f.mnems.len() == u.mnems.len() && f.mnems[..f.mnems.len() - 1] == u.mnems[..u.mnems.len() - 1] && f.mnems.last().map(|x| x != "NOPE").unwrap_or(false) {
                            u = f;
                        }
                    }
                }
                ctx = next_ctx;
                msg.units.push(u);
            }
            msgs.push(msg);
        }
        let mut n = *IFACES[iface].ns.last().unwrap();
        if rng.chance(1, 10) {
            // a message whose answers add up to exactly the size of process's response buffer
            let small = *rng.pick(&[32usize, 64, 128]);
            if let Some(fm) = super::common::response_fill_units(&mut rng, m, small) {
                if fm.render().len() <= small {
                    msgs = vec![fm];
                    n = small;
                }
            }
        }
        let mut early = false;
        if rng.chance(1, 12) {
            // A query that is answered early: it is followed, in the same message, by a unit
            // whose string payload holds a newline and is so long that the message overflows
            // process's N byte buffer.  The query was executed, so its answer must be sent.
            let small = *rng.pick(&[32usize, 64]);
            let ctx: Vec<String> = Vec::new();
            let first = loop {
                let u = zoo_unit(&mut rng, m, &ctx);
                if u.query && u.render().len() + 16 < small {
                    break u;
                }
            };
            let mut payload = b"a\n".to_vec();
            payload.extend(std::iter::repeat(b'p').take(small + rng.below(40)));
            let second = Unit { colon: true, mnems: vec!["ZOO".into(), "STR".into()], query: true, args: vec![quote(b'"', &payload)], ..Default::default() };
            msgs = vec![Msg { units: vec![first, second], semi: false, lead: vec![], trail: vec![] }];
            n = small;
            early = true;
        }
        let mut sc = Scenario { prop: "C04".into(), seed, iface, cap: 0, n, msgs, ..Default::default() };
        if early {
            sc.set("early_answer", 1);
        }
        let bytes = render(&sc.msgs).0;
        sc.scheds.push(gen::sched(&mut rng, &bytes));
        sc.scheds.push(gen::sched(&mut rng, &bytes));
        sc
    }
    fn check(&self, sc: &Scenario, st: &mut Stats) -> Verdict {
        let (bytes, _) = render(&sc.msgs);
        let v = |class: &str, detail: String| Verdict::Violation { class: class.into(), detail };
        if sc.flag("early_answer") && sc.msgs.len() == 1 && sc.msgs[0].units.len() == 2 {
            // the answer of the first unit alone (recording writer) ...
            let fb = {
                let mut b = sc.msgs[0].units[0].render();
                b.push(b'\n');
                b
            };
            let alone = exec(&run_exec(sc, fb.clone(), vec![0, fb.len()], Sink::Sim(None), vec![]), st);
            if alone.unsupported || alone.crashed() {
                return Verdict::Skip("skip:crashed(C05)");
            }
            let ok_query = alone.errors().is_empty() && alone.handlers().len() == 1 && !alone.responses().is_empty();
            // ... must be what process sends for the message that later overflows its buffer
            let p = exec(&process_exec(sc, bytes.clone(), 1), st);
            if p.crashed() {
                return Verdict::Skip("skip:crashed(C05)");
            }
            let executed = p.handlers().first().map(|h| h.0) == alone.handlers().first().map(|h| h.0);
            if ok_query && executed && alone.responses().len() <= sc.n {
                st.bump("reach:early_answer_then_overflow");
                let got = p.responses();
                if got.len() < alone.responses().len() || got[..alone.responses().len()] != alone.responses()[..] {
                    return v(
                        "response-lost",
                        format!("the query was executed by process (N={}) but its response [{}] was not sent; sent [{}]\n    {}", sc.n, show(&alone.responses()), show(&got), brief(&p)),
                    );
                }
            }
            return Verdict::Held { nontrivial: false, sig: scenario_sig(sc) };
        }
        // (1) the pass-through writer: every write_* and flush call, with suspensions
        let a = exec(&run_exec(sc, bytes.clone(), vec![0, bytes.len()], Sink::Sim(None), sc.sched(0).susp), st);
        if a.unsupported {
            return Verdict::Skip("skip:unsupported-configuration");
        }
        if a.crashed() {
            return Verdict::Skip("skip:crashed(C05)");
        }
        let (rich, failure) = match judge_writer_trace(sc.iface, &a, st) {
            Ok(x) => x,
            Err((class, detail)) if class == "harness" => {
                let _ = detail;
                return Verdict::Skip("skip:harness-expectation-mismatch");
            }
            Err((class, detail)) => return v(&class, format!("{detail}\n    {}", brief(&a))),
        };
        let want = a.responses();
        // (2) the shipped writers: same bytes
        let h = exec(&run_exec(sc, bytes.clone(), vec![0, bytes.len()], Sink::Heapless4096, vec![]), st);
        if h.crashed() {
            return Verdict::Skip("skip:crashed(C05)");
        }
        if h.responses() != want || h.handlers() != a.handlers() {
            return v("writer-dependent", format!("heapless::Vec<u8,4096> received [{}], the pass-through writer [{}]", show(&h.responses()), show(&want)));
        }
        let s = exec(&run_exec(sc, bytes.clone(), vec![0, bytes.len()], Sink::StdVec, vec![]), st);
        if !s.unsupported {
            if s.crashed() {
                return Verdict::Skip("skip:crashed(C05)");
            }
            st.bump("reach:std_vec_writer");
            if s.responses() != want || s.handlers() != a.handlers() {
                return v("writer-dependent", format!("std Vec<u8> received [{}], the pass-through writer [{}]", show(&s.responses()), show(&want)));
            }
        }
        // (3) bytes handed to Adapter::write by process (N = 1024 holds every response)
        if sc.msgs.iter().all(|m| m.render().len() <= sc.n) && want.len() <= sc.n {
            let p = exec(&process_exec(sc, bytes.clone(), 1), st);
            if p.crashed() {
                return Verdict::Skip("skip:crashed(C05)");
            }
            if p.handlers() == a.handlers() {
                st.bump("reach:process_writer");
                if p.responses() != want {
                    return v("writer-dependent", format!("Adapter::write received [{}], the pass-through writer [{}]\n    {}", show(&p.responses()), show(&want), brief(&p)));
                }
            }
        }
        // (4) a fixed-capacity writer that has room for the responses and not one byte
        // more: the stream is extended by one string query whose answer pads the total
        // to exactly N bytes for the smallest compiled N that can hold it, and run into
        // heapless::Vec<u8, N>; "has room" includes "exactly".
        {
            let l = want.len();
            let ns = IFACES[sc.iface].ns;
            if let Some(&cap_n) = ns.iter().find(|&&x| x >= l + 3 && x <= l + 3 + 40) {
                let pad = cap_n - l - 3;
                let mut ext = bytes.clone();
                ext.extend_from_slice(b":ZOO:STR? \"");
                ext.extend(std::iter::repeat(b'p').take(pad));
                ext.extend_from_slice(b"\"\n");
                let mut e1 = run_exec(sc, ext.clone(), vec![0, ext.len()], Sink::Sim(None), vec![]);
                e1.n = cap_n;
                let r1 = exec(&e1, st);
                let mut e2 = run_exec(sc, ext.clone(), vec![0, ext.len()], Sink::HeaplessN, vec![]);
                e2.n = cap_n;
                let r2 = exec(&e2, st);
                if !r1.crashed() && !r2.crashed() && !r1.unsupported && !r2.unsupported && r1.responses().len() == cap_n {
                    st.bump("reach:writer_filled_exactly");
                    if r2.responses() != r1.responses() || r2.errors() != r1.errors() {
                        return v(
                            "writer-dependent",
                            format!("heapless::Vec<u8,{cap_n}> has exactly room for the {cap_n} response bytes but received [{}] (errors {:?}); the pass-through writer received [{}]", show(&r2.responses()), r2.errors().iter().map(|e| e.number()).collect::<Vec<_>>(), show(&r1.responses())),
                        );
                    }
                }
            }
        }
        if failure {
            st.bump("reach:failed_unit_without_output");
        }
        Verdict::Held { nontrivial: rich && failure, sig: scenario_sig(sc) }
    }
    fn rule(&self) -> &'static str {
        "one scenario = (response-zoo interface with one query per supported response type, 1..3 messages of 1..3 units whose arguments carry the value the handler returns: integer extremes and random, f32/f64 special and random bit patterns, UTF-8 strings with quotes/separators/newlines, arbitrary byte blocks, tuples, nested tuples, slices, heapless vectors, Error values; failures injected: handler error, arity, unconvertible argument, query on command-only node; suspension tape for writer and handlers); judged at the Write seam with an independent decoder, then byte-compared across heapless::Vec<u8,4096>, std Vec<u8> (std build) and Adapter::write under process; distinct = distinct hash of (bytes, schedules); non-trivial = at least one float, string, block or sequence response decoded AND at least one injected failure that had to stay silent"
    }
    fn assumptions(&self) -> Vec<&'static str> {
        vec![
            "the expected value is computed from the arguments the handler logged as received (argument conversion is C03's subject), by the same harness mapping the generated handler uses",
            "finite floats must be NR1/NR2/NR3 text that Rust's correctly rounded parser maps back to the identical bit pattern",
            "the std Vec writer and String responses are exercised only in the build with microscpi's std feature (the registered commands use it)",
        ]
    }
    fn probes(&self) -> Vec<&'static str> {
        vec!["reach:responses_decoded", "reach:failed_unit_without_output", "reach:process_writer", "reach:writer_filled_exactly", "reach:response_exactly_fills_buffer", "reach:early_answer_then_overflow", "fired:suspension", "fired:handler_error"]
    }
}
