//! C07 - process depends only on the byte stream, not on how it arrives.
use simcore::exec::{Out, Sink};
use simcore::rng::Rng;
use simcore::spec::Family;
use simcore::world::Ev;

use super::common::{any_stream, pick_iface};
use super::{brief, exec, newline_splits, process_exec, run_exec, scenario_sig};
use crate::gen::{self, ChunkStyle};
use crate::runner::{Prop, Stats, Verdict};
use crate::scenario::{Scenario, Sched};

pub struct C07T;
pub static C07: C07T = C07T;

fn logs_differ(a: &Out, b: &Out) -> Option<&'static str> {
    if a.handlers() != b.handlers() {
        return Some("handlers");
    }
    if a.responses() != b.responses() {
        return Some("responses");
    }
    if a.errors() != b.errors() {
        return Some("errors");
    }
    None
}

impl Prop for C07T {
    fn id(&self) -> &'static str {
        "C07"
    }
    fn budget(&self, thorough: bool) -> u64 {
        if thorough { 8_000_000 } else { 800_000 }
    }
    fn generate(&self, seed: u64, thorough: bool) -> Scenario {
        let mut rng = Rng::new(seed);
        let (iface, cap) = pick_iface(&mut rng, &[Family::Tree, Family::Tree, Family::Tree, Family::Zoo, Family::Queue]);
        let m = simcore::spec::model(iface);
        let n = *rng.pick(simcore::spec::IFACES[iface].ns);
        let sweep = rng.chance(1, if thorough { 40 } else { 400 });
        let (mut stream, _) = any_stream(&mut rng, &m, n, if thorough { 200 } else { 120 });
        if sweep {
            // short stream: every composition of its length into read sizes is swept
            // (supplementary schedule source; the verdict rests on the seeded search)
            stream.truncate(rng.range(6, 12));
            if !stream.ends_with(b"\n") {
                stream.push(b'\n');
            }
        }
        let mut sc = Scenario { prop: "C07".into(), seed, iface, cap, n, stream, ..Default::default() };
        if sweep {
            sc.set("all_compositions", 1);
        }
        sc.set("take_first", rng.chance(1, 2) as i64);
        // schedule 0 is the reference: largest possible reads, no suspension
        sc.scheds.push(Sched::default());
        let k = rng.range(4, if thorough { 16 } else { 8 });
        for i in 0..k {
            let mut s = gen::sched(&mut rng, &sc.stream);
            match i {
                0 => s.chunks = gen::chunks(&mut rng, &sc.stream, ChunkStyle::Bytes, false),
                1 => s.chunks = gen::chunks(&mut rng, &sc.stream, ChunkStyle::Aligned, false),
                2 => s.chunks = gen::chunks(&mut rng, &sc.stream, ChunkStyle::FillThenSmall, true),
                _ => {}
            }
            sc.scheds.push(s);
        }
        sc
    }
    fn check(&self, sc: &Scenario, st: &mut Stats) -> Verdict {
        let stream = sc.bytes();
        let r = exec(&process_exec(sc, stream.clone(), 0), st);
        if r.unsupported {
            return Verdict::Skip("skip:unsupported-configuration");
        }
        if r.crashed() {
            return Verdict::Skip("skip:crashed(C05)");
        }
        let sig_of = |o: &Out| -> Vec<usize> {
            o.events.iter().filter_map(|e| if let Ev::TRead { got, ok: true, .. } = e { Some(*got) } else { None }).collect()
        };
        let ref_sig = sig_of(&r);
        let mut differing_schedules = 0;
        let mut carry = r.events.iter().any(|e| matches!(e, Ev::TRead { room, ok: true, .. } if *room < sc.n));
        for i in 1..sc.scheds.len() {
            let o = exec(&process_exec(sc, stream.clone(), i), st);
            if o.crashed() {
                // the reference schedule ran to the end of the stream, this one crashed:
                // the outcome depends on how the stream arrives
                return Verdict::Violation {
                    class: "schedule-dependent".into(),
                    detail: format!("schedule {i} crashes ({}) while schedule 0 runs to the end of the stream\n    sched 0:{}\n    sched {i}:{}", o.panic.clone().unwrap_or_else(|| "no progress".into()), brief(&r), brief(&o)),
                };
            }
            if let Some(what) = logs_differ(&r, &o) {
                return Verdict::Violation {
                    class: "schedule-dependent".into(),
                    detail: format!("{what} differ between schedule 0 and schedule {i}\n    sched 0:{}\n    sched {i}:{}", brief(&r), brief(&o)),
                };
            }
            if sig_of(&o) != ref_sig {
                differing_schedules += 1;
            }
            carry |= o.events.iter().any(|e| matches!(e, Ev::TRead { room, ok: true, .. } if *room < sc.n));
        }
        if sc.flag("all_compositions") && stream.len() <= 13 && !stream.is_empty() {
            let len = stream.len();
            for mask in 0u32..(1u32 << (len - 1)) {
                // bit i set = a read boundary after byte i
                let mut chunks = Vec::new();
                let mut run_len = 1u32;
                for i in 0..len - 1 {
                    if mask & (1 << i) != 0 {
                        chunks.push(run_len);
                        run_len = 1;
                    } else {
                        run_len += 1;
                    }
                }
                chunks.push(run_len);
                let mut ex = process_exec(sc, stream.clone(), 0);
                ex.chunks = chunks.clone();
                let o = exec(&ex, st);
                if o.crashed() {
                    return Verdict::Skip("skip:crashed(C05)");
                }
                if let Some(what) = logs_differ(&r, &o) {
                    return Verdict::Violation {
                        class: "schedule-dependent".into(),
                        detail: format!("{what} differ between the reference schedule and read sizes {chunks:?} (composition sweep)\n    reference:{}\n    this     :{}", brief(&r), brief(&o)),
                    };
                }
            }
            st.bump("reach:all_compositions_swept");
        }
        // suspension patterns of the *writer* seam: run on the whole stream with the
        // recording writer, without and with injected suspensions
        if sc.scheds.len() > 1 && sc.scheds[1].susp.iter().any(|&x| x > 0) {
            let w0 = exec(&run_exec(sc, stream.clone(), vec![0, stream.len()], Sink::Sim(None), vec![]), st);
            let w1 = exec(&run_exec(sc, stream.clone(), vec![0, stream.len()], Sink::Sim(None), sc.scheds[1].susp.clone()), st);
            if !w0.crashed() && !w1.crashed() {
                st.bump("reach:writer_suspension_compared");
                if let Some(what) = logs_differ(&w0, &w1) {
                    return Verdict::Violation {
                        class: "suspension-dependent".into(),
                        detail: format!("{what} of run differ with and without suspensions of writer/handler futures\n    without:{}\n    with   :{}", brief(&w0), brief(&w1)),
                    };
                }
            }
        }
        // second sentence: equal to run, one message at a time
        let splits = newline_splits(&stream);
        let fits = splits.windows(2).all(|w| w[1] - w[0] <= sc.n);
        if fits && splits.len() > 1 {
            let q = exec(&run_exec(sc, stream.clone(), splits.clone(), Sink::HeaplessN, vec![]), st);
            if q.crashed() {
                return Verdict::Skip("skip:crashed(C05)");
            }
            // a call that returned a remainder without reporting an error ended
            // inside a string or block: the stream has a newline inside a message
            // A call that returned a remainder in which a string or block can be
            // open (it contains a quote or '#') ended inside a message: the
            // stream has a newline that is not a terminator, the second sentence
            // does not apply.  Incomplete input is impossible without one of them.
            let calls = splits.len() - 1;
            let open = (0..calls).any(|k| {
                let piece = &stream[splits[k]..splits[k + 1]];
                match q.remainders.get(k) {
                    Some(&r) if r < piece.len() => piece[r..].iter().any(|b| matches!(b, b'"' | b'\'' | b'#')),
                    Some(_) => false,
                    None => true,
                }
            });
            if !open {
                st.bump("reach:compared_with_run_per_message");
                if let Some(what) = logs_differ(&r, &q) {
                    return Verdict::Violation {
                        class: "differs-from-run-per-message".into(),
                        detail: format!("{what} differ between process and run called once per message\n    process:{}\n    run:{}", brief(&r), brief(&q)),
                    };
                }
            } else {
                st.bump("reach:inner_newline_no_run_comparison");
            }
        }
        Verdict::Held { nontrivial: differing_schedules >= 1 && carry, sig: scenario_sig(sc) }
    }
    fn hang_probe(&self, sc: &Scenario) -> Option<simcore::exec::Exec> {
        Some(process_exec(sc, sc.bytes(), 0))
    }
    fn rule(&self) -> &'static str {
        "one scenario = (interface, N, byte stream, 5..17 read/suspension schedules incl. the reference schedule of largest reads, single bytes, message aligned, exact-fill biased, empty reads); all schedules must give identical handler, response and error logs, and equal run-per-message when every message fits and none has an inner newline; distinct = distinct hash of (interface, N, stream, all schedules); non-trivial = at least one schedule delivers the bytes in different read sizes than the reference AND some run kept unprocessed bytes across reads (carry-over, compaction or overflow reset)"
    }
    fn assumptions(&self) -> Vec<&'static str> {
        vec![
            "message boundaries of arbitrary streams are measured on the real code: a run call on a newline-terminated piece that returns a remainder containing a quote or '#' is taken to have ended inside a string or block, and the run-per-message comparison is then not made for that stream",
            "runs that crash are left to C05",
        ]
    }
    fn probes(&self) -> Vec<&'static str> {
        vec!["fired:empty_read", "fired:exact_fill_read", "fired:one_byte_read", "reach:overflow_reset", "reach:carry_over", "reach:compared_with_run_per_message", "reach:all_compositions_swept", "fired:suspension"]
    }
}
