//! C08 - strings and blocks are transparent containers, also across reads.
use simcore::exec::{Out, Sink};
use simcore::rng::Rng;
use simcore::spec::{Family, IFACES};
use simcore::world::{Arg, Ev};

use super::common::pick_iface;
use super::{brief, exec, process_exec, run_exec, scenario_sig};
use crate::gen::{self, ChunkStyle, MsgOpts, Payloads, UnitOpts};
use crate::runner::{Prop, Stats, Verdict};
use crate::scenario::{render, Msg, Scenario, Sched};

pub struct C08T;
pub static C08: C08T = C08T;

/// payload of a string / block literal as written, None for other literals
pub fn payload_of(lit: &[u8]) -> Option<(bool, Vec<u8>)> {
    if lit.len() >= 2 && (lit[0] == b'"' || lit[0] == b'\'') && lit[lit.len() - 1] == lit[0] {
        return Some((true, lit[1..lit.len() - 1].to_vec()));
    }
    if lit.len() >= 3 && lit[0] == b'#' && (b'1'..=b'9').contains(&lit[1]) {
        let d = (lit[1] - b'0') as usize;
        if lit.len() >= 2 + d {
            if let Some(len) = std::str::from_utf8(&lit[2..2 + d]).ok().and_then(|s| s.parse::<usize>().ok()) {
                if lit.len() == 2 + d + len {
                    return Some((false, lit[2 + d..].to_vec()));
                }
            }
        }
    }
    None
}

/// the same messages with every string / block argument replaced by a trivial one
fn simple_twin(msgs: &[Msg]) -> Vec<Msg> {
    let mut t = msgs.to_vec();
    for m in t.iter_mut() {
        for u in m.units.iter_mut() {
            for a in u.args.iter_mut() {
                match payload_of(a) {
                    Some((true, _)) => *a = b"\"x\"".to_vec(),
                    Some((false, _)) => *a = b"#11x".to_vec(),
                    None => {}
                }
            }
        }
    }
    t
}

fn hids(o: &Out) -> Vec<u16> {
    o.handlers().iter().map(|h| h.0).collect()
}

impl Prop for C08T {
    fn id(&self) -> &'static str {
        "C08"
    }
    fn budget(&self, thorough: bool) -> u64 {
        if thorough { 10_000_000 } else { 1_200_000 }
    }
    fn generate(&self, seed: u64, thorough: bool) -> Scenario {
        let mut rng = Rng::new(seed);
        let (iface, cap) = pick_iface(&mut rng, &[Family::Tree]);
        let m = simcore::spec::model(iface);
        let o = MsgOpts {
            max_units: rng.range(1, 4),
            unit: UnitOpts { payloads: Payloads::SpecialNl, allow_fail: false, allow_common: true },
            blank: false,
        };
        let plain = MsgOpts {
            max_units: 3,
            unit: UnitOpts { payloads: Payloads::Plain, allow_fail: false, allow_common: true },
            blank: false,
        };
        let mut msgs = Vec::new();
        if rng.chance(1, 3) {
            msgs.push(gen::valid_msg(&mut rng, &m, &plain));
        }
        // carrier message: retry until some unit carries a string or block
        let mut carrier = gen::valid_msg(&mut rng, &m, &o);
        for _ in 0..20 {
            if carrier.units.iter().any(|u| u.args.iter().any(|a| payload_of(a).is_some())) {
                break;
            }
            carrier = gen::valid_msg(&mut rng, &m, &o);
        }
        msgs.push(carrier);
        if rng.chance(2, 3) {
            msgs.push(gen::valid_msg(&mut rng, &m, &plain));
        }
        let need = msgs.iter().map(|x| x.render().len().max(26 * x.units.iter().filter(|u| u.query).count() + 40)).max().unwrap_or(1);
        let ns: Vec<usize> = IFACES[iface].ns.iter().copied().filter(|&n| n >= need).collect();
        let n = if ns.is_empty() { *IFACES[iface].ns.last().unwrap() } else { ns[rng.below(ns.len().min(2))] };
        let mut sc = Scenario { prop: "C08".into(), seed, iface, cap, n, msgs, ..Default::default() };
        if ns.is_empty() {
            sc.set("no_process", 1);
        }
        let bytes = render(&sc.msgs).0;
        let k = rng.range(4, if thorough { 10 } else { 6 });
        for i in 0..k {
            let style = match i {
                0 => ChunkStyle::Bytes,
                1 => ChunkStyle::AroundNewline,
                2 => ChunkStyle::Max,
                _ => *rng.pick(&[ChunkStyle::AroundNewline, ChunkStyle::Random, ChunkStyle::Random, ChunkStyle::FillThenSmall]),
            };
            let density = *rng.pick(&[0u64, 0, 2, 5]);
            let empties = rng.chance(1, 4);
            sc.scheds.push(Sched { chunks: gen::chunks(&mut rng, &bytes, style, empties), susp: gen::suspensions(&mut rng, 32, density) });
        }
        sc
    }
    fn check(&self, sc: &Scenario, st: &mut Stats) -> Verdict {
        let (bytes, _) = render(&sc.msgs);
        let units: usize = sc.msgs.iter().map(|m| m.units.len()).sum();
        let twin = simple_twin(&sc.msgs);
        let (tb, _) = render(&twin);
        // precondition: the same messages with trivial payloads are valid on the real code
        let t = exec(&run_exec(sc, tb.clone(), vec![0, tb.len()], Sink::Sim(None), vec![]), st);
        if t.unsupported {
            return Verdict::Skip("skip:unsupported-configuration");
        }
        if t.crashed() {
            return Verdict::Skip("skip:crashed(C05)");
        }
        if !t.errors().is_empty() || t.handlers().len() != units {
            return Verdict::Skip("skip:twin-with-trivial-payloads-not-valid");
        }
        // expected payloads in handler order
        let mut want: Vec<(usize, usize, bool, Vec<u8>)> = Vec::new(); // (unit index, arg index, is string, payload)
        let mut ui = 0;
        let mut has_nl = false;
        for m in &sc.msgs {
            for u in &m.units {
                for (ai, a) in u.args.iter().enumerate() {
                    if let Some((is_str, p)) = payload_of(a) {
                        has_nl |= p.contains(&b'\n');
                        want.push((ui, ai, is_str, p));
                    }
                }
                ui += 1;
            }
        }
        let judge = |mode: &str, o: &Out| -> Option<Verdict> {
            let v = |class: &str, detail: String| Some(Verdict::Violation { class: format!("{class}-{mode}"), detail });
            if !o.errors().is_empty() {
                return v("error-reported", format!("error(s) {:?} for a message whose only special content is inside string/block payloads ({mode}, N={})\n    got :{}\n    twin:{}", o.errors().iter().map(|e| e.number()).collect::<Vec<_>>(), sc.n, brief(o), brief(&t)));
            }
            if hids(o) != hids(&t) {
                return v("units-differ-from-twin", format!("handlers invoked differ from the same message with trivial payloads ({mode}, N={})\n    got :{}\n    twin:{}", sc.n, brief(o), brief(&t)));
            }
            let hs = o.handlers();
            for (ui, ai, is_str, p) in &want {
                let got = hs.get(*ui).and_then(|h| h.1.get(*ai));
                let ok = match (got, is_str) {
                    (Some(Arg::S(b)), true) => b == p,
                    (Some(Arg::Blk(b)), false) => b == p,
                    _ => false,
                };
                if !ok {
                    return v("payload-not-verbatim", format!("unit {ui} argument {ai}: written payload [{}], handler received {:?} ({mode})", crate::scenario::show(p), got));
                }
            }
            None
        };
        let crash = |mode: &str, o: &Out| Verdict::Violation {
            class: format!("crash-on-payload-{mode}"),
            detail: format!("the message runs with trivial payloads but crashes with these payloads ({mode}): {}\n    twin:{}", o.panic.clone().unwrap_or_else(|| "no progress".into()), brief(&t)),
        };
        let a = exec(&run_exec(sc, bytes.clone(), vec![0, bytes.len()], Sink::Sim(None), vec![]), st);
        if a.crashed() {
            return crash("run", &a);
        }
        if let Some(v) = judge("run", &a) {
            return v;
        }
        let mut split_in_payload = false;
        if !sc.flag("no_process") && sc.msgs.iter().all(|m| m.render().len() <= sc.n) {
            // same writer implementation as process uses (heapless::Vec<u8,N>, cleared per
            // message): what a writer does with the bytes is C04's subject
            let a = exec(&run_exec(sc, bytes.clone(), render(&sc.msgs).1, Sink::HeaplessN, vec![]), st);
            if a.crashed() {
                return Verdict::Skip("skip:crashed(C05)");
            }
            for i in 0..sc.scheds.len() {
                let o = exec(&process_exec(sc, bytes.clone(), i), st);
                if o.crashed() {
                    return crash("process", &o);
                }
                if let Some(v) = judge("process", &o) {
                    return v;
                }
                if o.responses() != a.responses() {
                    return Verdict::Violation {
                        class: "responses-differ-process".into(),
                        detail: format!("responses through process differ from run on the same bytes\n    process:{}\n    run    :{}", brief(&o), brief(&a)),
                    };
                }
                let reads = o.events.iter().filter(|e| matches!(e, Ev::TRead { ok: true, got, .. } if *got > 0)).count();
                if reads > 1 {
                    split_in_payload = true;
                }
            }
            st.bump("reach:judged_through_process");
        }
        if has_nl {
            st.bump("reach:newline_inside_payload");
        }
        // a relative unit after a carrier
        let mut rel_after = false;
        for m in &sc.msgs {
            let mut seen = false;
            for u in &m.units {
                if seen && !u.colon && !u.is_common() {
                    rel_after = true;
                }
                if u.args.iter().any(|x| payload_of(x).map(|p| p.1.contains(&b'\n')).unwrap_or(false)) {
                    seen = true;
                }
            }
        }
        if rel_after {
            st.bump("reach:relative_unit_after_newline_payload");
        }
        Verdict::Held { nontrivial: has_nl && rel_after && split_in_payload, sig: scenario_sig(sc) }
    }
    fn rule(&self) -> &'static str {
        "one scenario = (tree interface, 1..3 messages, one of them with string ('..' / \"..\") and block arguments whose payload is drawn from every byte the syntax permits, biased to separators and newline, block headers with 1..9 length digits, at every argument and unit position; N >= message length; 4..10 read schedules with boundaries biased into the payload and onto the embedded newline); judged through run and through process under every schedule against the written payload and against the same message with trivial payloads; distinct = distinct hash of (interface, N, bytes, schedules); non-trivial = a payload contains a newline AND a relative unit follows that carrier AND some schedule split the stream into several reads"
    }
    fn assumptions(&self) -> Vec<&'static str> {
        vec![
            "the same messages with trivial payloads (\"x\", #11x) must execute without error on the real code, otherwise the scenario is skipped (header matching and numeric conversion are C01/C03's subject)",
            "payloads never contain their own enclosing quote (the statement excludes it)",
            "N is at least the length of every message",
        ]
    }
    fn probes(&self) -> Vec<&'static str> {
        vec!["reach:newline_inside_payload", "reach:relative_unit_after_newline_payload", "reach:judged_through_process", "fired:one_byte_read", "fired:exact_fill_read"]
    }
}
