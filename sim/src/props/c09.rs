//! C09 - the error queue is a bounded FIFO with IEEE 488.2 overflow semantics.
use std::collections::VecDeque;

use microscpi::{Error, ErrorQueue, Response, StaticErrorQueue};
use simcore::exec::{now_or_never, Out};
use simcore::rng::Rng;
use simcore::spec::{Family, Model, StdRole, IFACES};
use simcore::world::Ev;

use super::{brief, exec, process_exec, scenario_sig};
use crate::gen::{self, MsgOpts, Payloads, UnitOpts};
use crate::runner::{Prop, Stats, Verdict};
use crate::scenario::{fault, render, Msg, Scenario, Unit};

pub struct C09T;
pub static C09: C09T = C09T;

/// `<number>,"<description>"\n` formatted by the library's own response code
/// (the format itself is C04's subject, not this property's)
fn lib_line_pair(number: i16, desc: &str) -> Vec<u8> {
    let mut v: heapless::Vec<u8, 256> = heapless::Vec::new();
    let _ = now_or_never((number, desc).write_response(&mut v));
    let mut o = v.to_vec();
    o.push(b'\n');
    o
}
fn lib_line_count(n: usize) -> Vec<u8> {
    let mut v: heapless::Vec<u8, 64> = heapless::Vec::new();
    let _ = now_or_never(n.write_response(&mut v));
    let mut o = v.to_vec();
    o.push(b'\n');
    o
}

fn model_push(q: &mut VecDeque<Error>, cap: usize, e: Error) {
    if q.len() >= cap {
        if let Some(b) = q.back_mut() {
            *b = Error::QueueOverflow;
        }
    } else {
        q.push_back(e);
    }
}

const DIRECT_ERRORS: [Error; 8] = [
    Error::UndefinedHeader,
    Error::InvalidCharacter,
    Error::DataTypeError,
    Error::Custom(1234, "Custom error A"),
    Error::Custom(-777, "x"),
    Error::QueueOverflow,
    Error::NumericDataError,
    Error::UnexpectedNumberOfParameters,
];

fn direct<const CAP: usize>(ops: &[u8], st: &mut Stats) -> Result<bool, String> {
    let mut q: StaticErrorQueue<CAP> = StaticErrorQueue::new();
    let mut m: VecDeque<Error> = VecDeque::new();
    let mut overflowed = false;
    let mut read_after = false;
    for (i, &op) in ops.iter().enumerate() {
        match op {
            0..=159 => {
                let e = DIRECT_ERRORS[(op % 8) as usize];
                if m.len() >= CAP {
                    overflowed = true;
                    st.bump("reach:queue_overflow");
                }
                q.push_error(e);
                model_push(&mut m, CAP, e);
            }
            160..=219 => {
                let got = q.pop_error();
                let want = m.pop_front();
                if overflowed {
                    read_after = true;
                }
                if got != want {
                    return Err(format!("op {i}: pop_error returned {got:?}, bounded FIFO model {want:?} (capacity {CAP}, ops {ops:?})"));
                }
            }
            _ => {}
        }
        if q.error_count() != m.len() {
            return Err(format!("op {i}: error_count {} but model holds {} (capacity {CAP}, ops {ops:?})", q.error_count(), m.len()));
        }
        if q.error_count() > CAP {
            return Err(format!("op {i}: queue holds {} entries, capacity {CAP}", q.error_count()));
        }
    }
    Ok(overflowed && read_after)
}

fn queue_unit(rng: &mut Rng, m: &Model, ctx: &[String]) -> Option<Unit> {
    // SYST:ERR? / SYST:ERR:NEXT? / SYST:ERR:COUN?, relative when the context allows it
    let ctx_refs: Vec<&str> = ctx.iter().map(|s| s.as_str()).collect();
    let is_q = |i: &usize| matches!(m.decl(m.spelled[*i].decl).role, StdRole::ErrNext | StdRole::ErrCount);
    let rel: Vec<usize> = m.continuing(&ctx_refs).into_iter().filter(is_q).collect();
    let abs: Vec<usize> = m.continuing(&[]).into_iter().filter(is_q).collect();
    let (cands, colon, skip) = if !rel.is_empty() && !ctx.is_empty() && rng.chance(1, 2) { (rel, false, ctx.len()) } else { (abs, !ctx.is_empty() || rng.chance(1, 2), 0) };
    if cands.is_empty() {
        return None;
    }
    let sp = &m.spelled[*rng.pick(&cands)];
    Some(Unit { colon, mnems: sp.path[skip..].iter().map(|s| s.to_string()).collect(), query: true, ..Default::default() })
}

impl Prop for C09T {
    fn id(&self) -> &'static str {
        "C09"
    }
    fn budget(&self, thorough: bool) -> u64 {
        if thorough { 15_000_000 } else { 1_500_000 }
    }
    fn generate(&self, seed: u64, _thorough: bool) -> Scenario {
        let mut rng = Rng::new(seed);
        let ifs = simcore::spec::ifaces_of(Family::Queue);
        let iface = *rng.pick(&ifs);
        let cap = *rng.pick(IFACES[iface].caps);
        let mut sc = Scenario { prop: "C09".into(), seed, iface, cap, ..Default::default() };
        if rng.chance(1, 5) {
            // second family: the ErrorQueue trait methods called directly
            sc.set("direct", 1);
            let n = rng.range(1, 24);
            sc.stream = (0..n).map(|_| rng.byte()).collect();
            sc.n = IFACES[iface].ns[0];
            return sc;
        }
        let m = simcore::spec::model(iface);
        let n_ops = rng.range(1, 24);
        let uo = UnitOpts { payloads: Payloads::Plain, allow_fail: false, allow_common: true };
        let mut msgs: Vec<Msg> = Vec::new();
        let mut cur = Msg::default();
        let mut ctx: Vec<String> = Vec::new();
        let query_bias = *rng.pick(&[2usize, 4, 6]);
        for _ in 0..n_ops {
            let roll = rng.below(12);
            let unit = if roll < query_bias {
                // one in six queue queries is itself faulty (surplus / too many parameters):
                // it must be rejected without touching the queue it asks about
                match queue_unit(&mut rng, m, &ctx) {
                    Some(u) if rng.chance(1, 6) => gen::make_faulty(&mut rng, m, &ctx, &u, fault::ARITY).or(Some(u)),
                    other => other,
                }
            } else {
                // a valid user *command* (user queries are left out: their responses are not this property's)
                let mut u = None;
                for _ in 0..6 {
                    if let Some(x) = gen::valid_unit(&mut rng, &m, &ctx, &uo) {
                        let full = gen::full_header(&ctx, &x);
                        let is_std = full.first().map(|s| s.starts_with("SYST")).unwrap_or(false) && full.get(1).map(|s| s.starts_with("ERR") || s.starts_with("VERS")).unwrap_or(false);
                        if !x.query && !is_std {
                            u = Some(x);
                            break;
                        }
                    }
                }
                match (u, roll) {
                    (Some(u), r) if r < query_bias + 3 => {
                        // faulty unit of kind 1..5
                        let kind = rng.range(1, 5) as u8;
                        gen::make_faulty(&mut rng, &m, &ctx, &u, kind).or(Some(u))
                    }
                    (u, _) => u,
                }
            };
            if let Some(u) = unit {
                let broken = matches!(u.fault, fault::SYNTAX | fault::UNDEFINED);
                ctx = gen::ctx_after(&ctx, &u);
                cur.units.push(u);
                // several operations per message where the syntax allows it
                if broken || rng.chance(1, 2) {
                    msgs.push(std::mem::take(&mut cur));
                    ctx.clear();
                }
            }
        }
        if !cur.units.is_empty() {
            msgs.push(cur);
        }
        let _ = MsgOpts { max_units: 1, unit: uo, blank: false };
        sc.msgs = msgs;
        let need = sc.msgs.iter().map(|x| x.render().len().max(48 * x.units.iter().filter(|u| u.query).count())).max().unwrap_or(1).max(64);
        let ns: Vec<usize> = IFACES[iface].ns.iter().copied().filter(|&n| n >= need).collect();
        sc.n = if ns.is_empty() { *IFACES[iface].ns.last().unwrap() } else { ns[rng.below(ns.len().min(2))] };
        let bytes = render(&sc.msgs).0;
        sc.scheds.push(gen::sched(&mut rng, &bytes));
        match rng.below(8) {
            0 | 1 => {
                sc.set("restart", 1);
                sc.set("fault_at", rng.below(12) as i64);
            }
            // the same history handed to run in one buffer / one message per call
            2 => sc.set("run_mode", 1),
            3 => sc.set("run_mode", 2),
            _ => {}
        }
        sc
    }
    fn check(&self, sc: &Scenario, st: &mut Stats) -> Verdict {
        let v = |class: &str, detail: String| Verdict::Violation { class: class.into(), detail };
        if sc.flag("direct") {
            let r = match sc.cap {
                1 => direct::<1>(&sc.stream, st),
                2 => direct::<2>(&sc.stream, st),
                3 => direct::<3>(&sc.stream, st),
                4 => direct::<4>(&sc.stream, st),
                _ => direct::<10>(&sc.stream, st),
            };
            st.bump("executions");
            st.bump("reach:direct_trait_calls");
            return match r {
                Ok(nt) => Verdict::Held { nontrivial: nt, sig: scenario_sig(sc) },
                Err(d) => v("direct-queue-model", d),
            };
        }
        let (bytes, bounds) = render(&sc.msgs);
        if bytes.is_empty() {
            return Verdict::Skip("skip:empty-history");
        }
        // Every fault reaches the queue: the history handed to run one message at a time,
        // pushes counted per message.  A message with k >= 1 faulty units must push between
        // 1 and k entries (C06: all or none of the units behind a faulty one run), a message
        // without a faulty unit none.  (How the *interface* turns an error into a queue
        // entry - ErrorCommands' blanket ErrorHandler - is only reachable here.)
        {
            let mut e0 = process_exec(sc, bytes.clone(), 0);
            e0.mode = simcore::exec::Mode::Run { sink: simcore::exec::Sink::Heapless4096, splits: bounds.clone() };
            e0.chunks.clear();
            let o0 = exec(&e0, st);
            if !o0.unsupported && !o0.crashed() {
                let mut pushes = vec![0usize; sc.msgs.len()];
                let mut cur = 0usize;
                for e in &o0.events {
                    match e {
                        Ev::Call(k) => cur = *k as usize,
                        Ev::Err(_) => {
                            if let Some(x) = pushes.get_mut(cur) {
                                *x += 1
                            }
                        }
                        _ => {}
                    }
                }
                for (i, m) in sc.msgs.iter().enumerate() {
                    let k = m.units.iter().filter(|u| u.fault != fault::NONE).count();
                    if k == 0 && pushes[i] != 0 {
                        return v("spurious-error", format!("message {i} [{}] has no faulty unit but {} error(s) reached the queue\n    {}", crate::scenario::show(&m.render()), pushes[i], brief(&o0)));
                    }
                    if k > 0 && pushes[i] == 0 {
                        return v("error-lost", format!("message {i} [{}] has {k} faulty unit(s) but nothing reached the queue\n    {}", crate::scenario::show(&m.render()), brief(&o0)));
                    }
                    if pushes[i] > k {
                        return v("error-duplicated", format!("message {i} [{}] has {k} faulty unit(s) but {} entries reached the queue\n    {}", crate::scenario::show(&m.render()), pushes[i], brief(&o0)));
                    }
                }
                st.bump("reach:pushes_per_message_judged");
            }
        }
        let mut ex = process_exec(sc, bytes.clone(), 0);
        match sc.knob("run_mode") {
            Some(1) => ex.mode = simcore::exec::Mode::Run { sink: simcore::exec::Sink::Heapless4096, splits: vec![0, bytes.len()] },
            Some(_) => ex.mode = simcore::exec::Mode::Run { sink: simcore::exec::Sink::Heapless4096, splits: bounds.clone() },
            None => {}
        }
        if sc.knob("run_mode").is_some() {
            st.bump("reach:history_through_run");
        }
        if sc.flag("restart") {
            ex.fault_at = sc.knob("fault_at").map(|x| x as usize);
            ex.restart = true;
            ex.restart_bounds = bounds.clone();
        }
        let o: Out = exec(&ex, st);
        if o.unsupported {
            return Verdict::Skip("skip:unsupported-configuration");
        }
        if o.crashed() {
            return Verdict::Skip("skip:crashed(C05)");
        }
        let cap = sc.cap;
        let mut model: VecDeque<Error> = VecDeque::new();
        let mut want_resp: Vec<u8> = Vec::new();
        let mut overflowed = false;
        let mut read_after_overflow = false;
        let mut too_big = false;
        let mut lost_write = false;
        for (i, e) in o.events.iter().enumerate() {
            match e {
                Ev::Err(x) => {
                    if matches!(x, Error::TooMuchData | Error::SystemError) {
                        too_big = true;
                    }
                    if model.len() >= cap {
                        overflowed = true;
                        st.bump("reach:queue_overflow");
                    }
                    model_push(&mut model, cap, *x);
                }
                Ev::QPop(x) => {
                    let want = model.pop_front();
                    if overflowed {
                        read_after_overflow = true;
                    }
                    if *x != want {
                        return v(
                            "fifo-order",
                            format!("event {i}: SYST:ERR? removed {x:?} but the bounded FIFO model (capacity {cap}, fed with the observed pushes) has {want:?} at the front\n    {}", brief(&o)),
                        );
                    }
                    match want {
                        // fixed by the statement itself: the overflow marker, handler-raised
                        // values (number and text verbatim) and the empty answer
                        Some(Error::QueueOverflow) => want_resp.extend_from_slice(b"-350,\"Queue overflow\"\n"),
                        Some(Error::Custom(code, text)) => want_resp.extend_from_slice(format!("{code},\"{}\"\n", text.replace('"', "\"\"")).as_bytes()),
                        // standard errors the workloads produce: the standard's number and text
                        Some(e) if simcore::world::STANDARD_TEXT.iter().any(|(n, _)| *n == e.number()) => {
                            let (n, t) = simcore::world::STANDARD_TEXT.iter().find(|(n, _)| *n == e.number()).unwrap();
                            want_resp.extend_from_slice(format!("{n},\"{t}\"\n").as_bytes())
                        }
                        // any other standard error: number and description as the library maps them
                        Some(e) => want_resp.extend(lib_line_pair(e.number(), e.into())),
                        None => {
                            st.bump("reach:read_empty_queue");
                            want_resp.extend_from_slice(b"0,\"\"\n")
                        }
                    }
                }
                Ev::QCount(n) => {
                    if *n != model.len() {
                        return v("count", format!("event {i}: SYST:ERR:COUN? saw {n} entries, model holds {} (capacity {cap})\n    {}", model.len(), brief(&o)));
                    }
                    if *n > cap {
                        return v("capacity", format!("queue holds {n} entries, capacity {cap}"));
                    }
                    want_resp.extend(lib_line_count(*n));
                }
                Ev::TWrite { ok: false, .. } | Ev::TFlush { ok: false } => lost_write = true,
                _ => {}
            }
        }
        // the operation a query performs is the one it names: the observed sequence of
        // remove / count operations must be a subsequence of the queue queries written
        // (a query can legitimately not run: it is itself faulty, follows a unit that ended
        // its message, or was lost with a broken link)
        {
            let model_if = simcore::spec::model(sc.iface);
            let mut written: Vec<bool> = Vec::new(); // true = NEXT?, false = COUNt?
            for m in &sc.msgs {
                let mut ctx: Vec<String> = Vec::new();
                for u in &m.units {
                    if u.fault == fault::NONE && u.query && !u.is_common() {
                        if let Some(d) = gen::resolve(model_if, &gen::full_header(&ctx, u), true) {
                            match model_if.decl(d).role {
                                StdRole::ErrNext => written.push(true),
                                StdRole::ErrCount => written.push(false),
                                _ => {}
                            }
                        }
                    }
                    ctx = gen::ctx_after(&ctx, u);
                }
            }
            let observed: Vec<bool> = o.events.iter().filter_map(|e| match e {
                Ev::QPop(_) => Some(true),
                Ev::QCount(_) => Some(false),
                _ => None,
            }).collect();
            let mut wi = 0;
            for (k, ob) in observed.iter().enumerate() {
                while wi < written.len() && written[wi] != *ob {
                    wi += 1;
                }
                if wi >= written.len() {
                    return v("wrong-operation", format!("queue operation {k} ({}) does not correspond to the queue queries written ({:?}, true = NEXT?, false = COUNt?)\n    {}", if *ob { "remove" } else { "count" }, written, brief(&o)));
                }
                wi += 1;
            }
        }
        // responses: what the queue returned must be what was answered
        if !too_big && !lost_write {
            // compared line by line, empty lines dropped: a stray newline written for a
            // *rejected* query is C04's subject, which entry is answered is this one's
            let lines = |b: &[u8]| -> Vec<Vec<u8>> { b.split(|c| *c == b'\n').filter(|l| !l.is_empty()).map(|l| l.to_vec()).collect() };
            let got = o.responses();
            if lines(&got) != lines(&want_resp) {
                return v("response", format!("answers [{}] differ from what the queue operations returned [{}]\n    {}", crate::scenario::show(&got), crate::scenario::show(&want_resp), brief(&o)));
            }
            st.bump("reach:responses_judged");
        }
        if o.results.len() > 1 {
            st.bump("reach:queue_survived_restart");
        }
        Verdict::Held { nontrivial: overflowed && read_after_overflow, sig: scenario_sig(sc) }
    }
    fn rule(&self) -> &'static str {
        "one scenario = (queue interface with capacity 1,2,3,4 or 10, history of 1..24 operations from {faulty unit of 5 kinds incl. handler-raised Custom with unique code, SYST:ERR?, SYST:ERR:NEXT?, SYST:ERR:COUN?, valid command} grouped several per message, N, read/suspension schedule, optionally a transport error and reconnect) through process, judged event by event against a bounded FIFO reference model fed with the observed pushes; a second family calls the ErrorQueue trait methods of StaticErrorQueue directly; distinct = distinct hash of (capacity, N, bytes, schedule); non-trivial = the history overflows the queue at least once AND reads it afterwards"
    }
    fn assumptions(&self) -> Vec<&'static str> {
        vec![
            "how many errors a fault produces is C06's subject: the model is fed with the pushes actually observed",
            "the text format of <number>,\"<description>\" is produced by the library's own Response code (C04's subject); this check decides which entry is returned and when",
            "answers are compared only when they fit in N and no transport error was injected into a write",
        ]
    }
    fn probes(&self) -> Vec<&'static str> {
        vec!["reach:queue_overflow", "reach:pushes_per_message_judged", "reach:history_through_run", "reach:read_empty_queue", "reach:responses_judged", "reach:queue_survived_restart", "reach:direct_trait_calls", "fired:handler_error"]
    }
}
