//! C13 - parsing, dispatch and response formatting never allocate on the heap.
//!
//! Allocator seam: every allocation attempted while control is inside library
//! code is counted (see simcore::alloc); plus the obligation that a binary
//! without std and without any global allocator links against the library.
use simcore::exec::{Exec, Mode, Sink};
use simcore::rng::Rng;
use simcore::world::Ev;

use super::{brief, exec, scenario_sig};
use crate::runner::{Prop, Stats, Verdict};
use crate::scenario::Scenario;

pub struct C13T;
pub static C13: C13T = C13T;

impl Prop for C13T {
    fn id(&self) -> &'static str {
        "C13"
    }
    fn budget(&self, thorough: bool) -> u64 {
        if thorough { 15_000_000 } else { 2_000_000 }
    }
    fn generate(&self, seed: u64, thorough: bool) -> Scenario {
        // the workloads of the other checks
        let mut rng = Rng::new(seed);
        let via = rng.below(6);
        let sub = simcore::rng::splitmix(seed ^ 0xC13);
        let mut sc = match via {
            0 => super::c05::C05.generate(sub, thorough),
            1 => super::c07::C07.generate(sub, thorough),
            2 => super::c08::C08.generate(sub, thorough),
            3 => super::c09::C09.generate(sub, thorough),
            4 => super::c04::C04.generate(sub, thorough),
            _ => super::c06::C06.generate(sub, thorough),
        };
        sc.prop = "C13".into();
        sc.seed = seed;
        sc.knobs.clear();
        sc.set("via", via as i64);
        sc.scheds.truncate(1);
        // one scenario in five also loses the link at some transport call and reconnects
        if rng.chance(1, 5) {
            sc.set("fault_at", rng.below(10) as i64);
        }
        sc
    }
    fn check(&self, sc: &Scenario, st: &mut Stats) -> Verdict {
        if cfg!(feature = "std") {
            return Verdict::Skip("skip:std-build(the property is about the default no_std configuration)");
        }
        let bytes = sc.bytes();
        let s = sc.sched(0);
        let mut formatted = false;
        let mut errors = false;
        for (name, mode) in [
            ("process", Mode::Process),
            ("run+heapless::Vec<u8,4096>", Mode::Run { sink: Sink::Heapless4096, splits: vec![0, bytes.len()] }),
            ("run+heapless::Vec<u8,N>", Mode::Run { sink: Sink::HeaplessN, splits: super::newline_splits(&bytes) }),
        ] {
            let mut ex = Exec::new(sc.iface, sc.cap, sc.n, mode, bytes.clone());
            ex.chunks = s.chunks.clone();
            ex.susp = s.susp.clone();
            if let Some(k) = sc.knob("fault_at") {
                ex.fault_at = Some(k as usize);
                ex.restart = true;
            }
            let o = exec(&ex, st);
            if o.unsupported {
                return Verdict::Skip("skip:unsupported-configuration");
            }
            if o.panic.is_some() {
                return Verdict::Skip("skip:crashed(C05)");
            }
            if o.lib_allocs > 0 {
                return Verdict::Violation {
                    class: "heap-allocation".into(),
                    detail: format!("{} heap allocation(s) were attempted while control was inside library code ({name}, N={})\n    {}", o.lib_allocs, sc.n, brief(&o)),
                };
            }
            formatted |= !o.responses().is_empty();
            errors |= o.events.iter().any(|e| matches!(e, Ev::Err(_)));
        }
        if formatted {
            st.bump("reach:formatted_response");
        }
        if errors {
            st.bump("reach:error_path");
        }
        Verdict::Held { nontrivial: formatted && errors, sig: scenario_sig(sc) }
    }
    fn extra(&self, st: &mut Stats) -> Result<(), (String, String)> {
        if cfg!(feature = "std") {
            return Ok(());
        }
        let verif = std::env::var("SIM_VERIF_DIR").unwrap_or("/verif".into());
        let dir = format!("{verif}/nostd-link");
        let out = std::process::Command::new("cargo")
            .args(["build", "--release", "--offline"])
            .current_dir(&dir)
            .env("CARGO_NET_OFFLINE", "true")
            .env("CARGO_TERM_COLOR", "never")
            .env_remove("RUSTFLAGS")
            .output();
        let out = match out {
            Ok(o) => o,
            Err(e) => return Err(("nostd-link-not-run".into(), format!("cannot start cargo in {dir}: {e}"))),
        };
        st.bump("obligation:nostd_allocator_less_link_attempted");
        if !out.status.success() {
            let err = String::from_utf8_lossy(&out.stderr);
            // the compiler / linker errors (warnings left out)
            let lines: Vec<&str> = err.lines().collect();
            let mut keep: Vec<&str> = Vec::new();
            let mut take = 0;
            for l in &lines {
                if l.starts_with("error") {
                    take = 8;
                }
                if take > 0 && !l.trim().is_empty() {
                    keep.push(l);
                    take -= 1;
                }
            }
            if keep.is_empty() {
                keep = lines[lines.len().saturating_sub(20)..].to_vec();
            }
            keep.truncate(40);
            let tail = keep.join("\n    ");
            return Err(("nostd-link-failed".into(), format!("a #![no_std] binary without a global allocator does not build/link against microscpi (default features):\n    {tail}")));
        }
        let bin = format!("{dir}/target/x86_64-unknown-linux-gnu/release/nostd-link");
        if let Ok(nm) = std::process::Command::new("nm").arg(&bin).output() {
            let syms = String::from_utf8_lossy(&nm.stdout);
            let bad: Vec<&str> = syms.lines().filter(|l| l.contains("__rust_alloc") || l.contains("__rust_realloc") || l.contains("__rg_alloc") || l.contains("__rust_dealloc")).collect();
            if !bad.is_empty() {
                return Err(("nostd-link-references-allocator".into(), format!("allocator symbols in the linked binary: {bad:?}")));
            }
            st.bump("obligation:no_allocator_symbol_in_binary");
        }
        match std::process::Command::new(&bin).status() {
            Ok(s) if s.code() == Some(0) => st.bump("obligation:nostd_binary_ran_run_and_process"),
            Ok(s) => return Err(("nostd-binary-failed".into(), format!("the allocator-less binary exited with {s:?}"))),
            Err(_) => {}
        }
        st.bump("obligation:nostd_allocator_less_link_ok");
        Ok(())
    }
    fn rule(&self) -> &'static str {
        "one scenario = a scenario of the C04/C05/C06/C07/C08/C09 workloads (interface, N, stream, read and suspension schedule) executed through process, through run with heapless::Vec<u8,4096> and through run per message with heapless::Vec<u8,N>, on the library built with default features (no_std); the allocator wrapper counts every alloc/realloc issued while control is inside library code (harness seams bracket themselves out); distinct = distinct hash of the scenario; non-trivial = the run formatted at least one response AND reported at least one error; in addition one allocator-less no_std binary is built, linked, inspected for allocator symbols and executed"
    }
    fn assumptions(&self) -> Vec<&'static str> {
        vec![
            "allocations made by harness seams (transport, handlers, writer, error sink, event log) are bracketed out by RAII guards; deallocation is not counted",
            "the link obligation is built for x86_64-unknown-linux-gnu with -nostartfiles against libc for memcpy/exit only",
        ]
    }
    fn probes(&self) -> Vec<&'static str> {
        vec!["reach:formatted_response", "reach:error_path", "obligation:nostd_allocator_less_link_ok", "reach:response_did_not_fit"]
    }
}
