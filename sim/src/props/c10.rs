//! C10 - process answers before it reads on, and ends only on a transport error.
use simcore::exec::{Out, Sink, Tok};
use simcore::rng::Rng;
use simcore::spec::{Family, IFACES};
use simcore::world::Ev;

use super::common::{pick_iface, valid_history};
use super::{brief, exec, process_exec, run_exec, scenario_sig};
use crate::gen::{self, Payloads};
use crate::runner::{Prop, Stats, Verdict};
use crate::scenario::{render, Scenario};

pub struct C10T;
pub static C10: C10T = C10T;

fn is_t(e: &Ev) -> bool {
    matches!(e, Ev::TRead { .. } | Ev::TWrite { .. } | Ev::TFlush { .. })
}

/// what was executed, in order: handler entries with their arguments, and reported errors
fn exec_tokens(o: &Out) -> Vec<Ev> {
    o.events.iter().filter(|e| matches!(e, Ev::Enter { .. } | Ev::Err(_))).cloned().collect()
}

/// index (in the event log) of the k-th transport call
fn t_event_index(o: &Out, k: usize) -> Option<usize> {
    o.events.iter().enumerate().filter(|(_, e)| is_t(e)).nth(k).map(|(i, _)| i)
}

impl Prop for C10T {
    fn id(&self) -> &'static str {
        "C10"
    }
    fn level(&self) -> &'static str {
        "fault_enumeration"
    }
    fn budget(&self, thorough: bool) -> u64 {
        if thorough { 3_000_000 } else { 600_000 }
    }
    fn generate(&self, seed: u64, thorough: bool) -> Scenario {
        let mut rng = Rng::new(seed);
        let (iface, cap) = pick_iface(&mut rng, &[Family::Tree, Family::Tree, Family::Queue]);
        let m = simcore::spec::model(iface);
        let k = rng.range(1, 8);
        let max_units = rng.range(1, 3);
        let pay = match rng.below(8) {
            0 | 1 => Payloads::SpecialNl,
            2 | 3 => Payloads::Special,
            _ => Payloads::Plain,
        };
        let mut msgs = valid_history(&mut rng, &m, k, max_units, pay, true);
        // some faulty messages: they produce no response (or, on queue interfaces, feed SYST:ERR?)
        for msg in msgs.iter_mut() {
            if msg.units.is_empty() || !rng.chance(1, 4) {
                continue;
            }
            let j = rng.below(msg.units.len());
            let mut ctx: Vec<String> = Vec::new();
            for u in &msg.units[..j] {
                ctx = gen::ctx_after(&ctx, u);
            }
            let kind = rng.range(1, 5) as u8;
            if let Some(f) = gen::make_faulty(&mut rng, &m, &ctx, &msg.units[j], kind) {
                msg.units.truncate(j + 1);
                msg.units[j] = f;
            }
        }
        let need = msgs.iter().map(|x| x.render().len()).max().unwrap_or(1).max(if IFACES[iface].family == Family::Queue { 64 } else { 1 });
        let ns: Vec<usize> = IFACES[iface].ns.iter().copied().filter(|&n| n >= need).collect();
        let n = if ns.is_empty() { *IFACES[iface].ns.last().unwrap() } else { ns[rng.below(ns.len().min(3))] };
        // one history in twelve starts with queries whose answers exceed N (several *IDN?)
        if rng.chance(1, 12) {
            if let Some(mut fm) = super::common::response_fill_units(&mut rng, m, n + 30) {
                fm.units.truncate(6);
                if fm.render().len() <= n {
                    let at = rng.below(msgs.len() + 1);
                    msgs.insert(at, fm);
                }
            }
        }
        // sometimes a message whose answers fill the N byte response buffer exactly
        if rng.chance(1, 6) {
            if let Some(fm) = super::common::response_fill_units(&mut rng, m, n) {
                if fm.render().len() <= n {
                    let at = rng.below(msgs.len() + 1);
                    msgs.insert(at, fm);
                }
            }
        }
        // one history in ten is made of short single-unit messages on a SMALL buffer, so that
        // an identification query (22 answer bytes, written in three pieces) does not fit
        let mut n = n;
        if rng.chance(1, 10) {
            let small: Vec<usize> = IFACES[iface].ns.iter().copied().filter(|&x| (8..=20).contains(&x)).collect();
            if !small.is_empty() {
                let sn = *rng.pick(&small);
                let shorts: Vec<&simcore::spec::Spelled> = m
                    .spelled
                    .iter()
                    .filter(|sp| {
                        let d = m.decl(sp.decl);
                        d.params.is_empty() && !gen::is_fail(d) && sp.path.join(":").len() + 3 <= sn
                    })
                    .collect();
                if !shorts.is_empty() {
                    let k = rng.range(2, 5);
                    let mut ms = Vec::new();
                    for _ in 0..k {
                        let sp = *rng.pick(&shorts);
                        let d = m.decl(sp.decl);
                        ms.push(crate::scenario::Msg {
                            units: vec![crate::scenario::Unit { colon: false, mnems: sp.path.iter().map(|x| x.to_string()).collect(), query: d.query, ..Default::default() }],
                            semi: false,
                            lead: vec![],
                            trail: vec![],
                        });
                    }
                    msgs = ms;
                    n = sn;
                }
            }
        }
        let mut sc = Scenario { prop: "C10".into(), seed, iface, cap, n, msgs, ..Default::default() };
        let bytes = render(&sc.msgs).0;
        sc.scheds.push(gen::sched(&mut rng, &bytes));
        sc.set("lockstep", rng.chance(1, 2) as i64);
        sc.set("take_first", rng.chance(1, 2) as i64);
        sc.set("restart", rng.chance(1, 2) as i64);
        // quick: a seeded sample of fault positions; thorough: every position
        if !thorough {
            sc.set("fault_sample", (rng.next() >> 8) as i64);
        }
        sc
    }
    fn check(&self, sc: &Scenario, st: &mut Stats) -> Verdict {
        let (bytes, bounds) = render(&sc.msgs);
        if bytes.is_empty() {
            return Verdict::Skip("skip:empty-history");
        }
        let v = |class: &str, detail: String| Verdict::Violation { class: class.into(), detail };
        // per message responses and handlers: run, one message at a time (differential reference)
        // (into the writer process uses: heapless::Vec<u8,N>, cleared after every call)
        let r = exec(&run_exec(sc, bytes.clone(), bounds.clone(), Sink::HeaplessN, vec![]), st);
        if r.unsupported {
            return Verdict::Skip("skip:unsupported-configuration");
        }
        if r.crashed() {
            return Verdict::Skip("skip:crashed(C05)");
        }
        let nmsg = bounds.len() - 1;
        let mut resp: Vec<Vec<u8>> = vec![Vec::new(); nmsg];
        let mut hand: Vec<Vec<u16>> = vec![Vec::new(); nmsg];
        let mut cur = 0usize;
        for e in &r.events {
            match e {
                Ev::Call(k) => cur = *k as usize,
                Ev::Enter { h, .. } => hand[cur.min(nmsg - 1)].push(*h),
                _ => {}
            }
        }
        if r.sink_marks.len() != nmsg {
            return Verdict::Skip("skip:reference-run-incomplete");
        }
        let mut last = 0;
        for (i, &mk) in r.sink_marks.iter().enumerate() {
            resp[i] = r.sink_bytes[last..mk].to_vec();
            last = mk;
        }
        if r.events.iter().any(|e| matches!(e, Ev::Err(microscpi::Error::TooMuchData) | Ev::Err(microscpi::Error::SystemError))) {
            // Some message's answers do not fit the N byte response buffer.  What (if
            // anything) is sent for THAT message is left open (DESIGN 7, O1); every other
            // message must still be answered with exactly its query responses, in order,
            // and nothing else may be written.
            let mut over = vec![false; nmsg];
            let mut cur = 0usize;
            for e in &r.events {
                match e {
                    Ev::Call(k) => cur = *k as usize,
                    Ev::Err(microscpi::Error::TooMuchData) | Ev::Err(microscpi::Error::SystemError) => over[cur.min(nmsg - 1)] = true,
                    _ => {}
                }
            }
            if (0..nmsg).any(|i| bounds[i + 1] - bounds[i] > sc.n) || r.remainders.iter().zip(bounds.windows(2)).any(|(rm, w)| *rm < w[1] - w[0]) {
                return Verdict::Skip("skip:message-or-response-larger-than-N");
            }
            let t = exec(&process_exec(sc, bytes.clone(), 0), st);
            if t.crashed() {
                return Verdict::Skip("skip:crashed(C05)");
            }
            if exec_tokens(&t) != exec_tokens(&r) {
                return Verdict::Skip("skip:process-executes-differently-from-run(C07/C08)");
            }
            match t.results.last() {
                Some(Some(Err(Tok::Eof))) => {}
                Some(Some(Ok(()))) => return v("returned-ok", format!("process returned Ok(())\n    {}", brief(&t))),
                other => return v("ended-without-transport-error", format!("{other:?}\n    {}", brief(&t))),
            }
            // The write calls, in order, must be: for a message that fits, writes that add up
            // to exactly its answers (one write, or one per piece when the message holds
            // newlines inside payloads); for a message whose answers overflow, any number of
            // writes of its own; nothing else.  Bytes of an overflowing message may therefore
            // not be glued in front of a later answer.
            let writes: Vec<&Vec<u8>> = t.events.iter().filter_map(|e| if let Ev::TWrite { data, ok: true } = e { Some(data) } else { None }).collect();
            fn fits(i: usize, j: usize, over: &[bool], resp: &[Vec<u8>], writes: &[&Vec<u8>]) -> bool {
                if i == over.len() {
                    return j == writes.len();
                }
                if over[i] {
                    return (j..=writes.len()).any(|k| fits(i + 1, k, over, resp, writes));
                }
                if resp[i].is_empty() {
                    return fits(i + 1, j, over, resp, writes);
                }
                let mut acc: Vec<u8> = Vec::new();
                for k in j..writes.len() {
                    acc.extend_from_slice(writes[k]);
                    if acc.len() > resp[i].len() {
                        break;
                    }
                    if acc == resp[i] && fits(i + 1, k + 1, over, resp, writes) {
                        return true;
                    }
                }
                false
            }
            let ok = fits(0, 0, &over, &resp, &writes);
            let got = t.responses();
            let segs: Vec<String> = (0..nmsg).map(|i| if over[i] { "<any>".to_string() } else { crate::scenario::show(&resp[i]) }).collect();
            st.bump("reach:history_with_answer_larger_than_N");
            if !ok {
                return v(
                    "content",
                    format!("a message whose answers do not fit N={} bytes disturbed the answers of other messages: written [{}], expected per message {:?}\n    {}", sc.n, crate::scenario::show(&got), segs, brief(&t)),
                );
            }
            return Verdict::Held { nontrivial: false, sig: scenario_sig(sc) };
        }
        // every message and every message's responses must fit (DESIGN 7, O1)
        for i in 0..nmsg {
            if bounds[i + 1] - bounds[i] > sc.n || resp[i].len() > sc.n {
                return Verdict::Skip("skip:message-or-response-larger-than-N");
            }
        }
        if r.remainders.iter().zip(bounds.windows(2)).any(|(rm, w)| *rm < w[1] - w[0]) {
            return Verdict::Skip("skip:message-left-open");
        }
        if bytes[..bytes.len() - 1].iter().zip(bounds.iter().skip(1)).count() > 0 && sc.msgs.iter().any(|m| { let b = m.render(); b[..b.len() - 1].contains(&b'\n') }) {
            st.bump("reach:newline_inside_payload");
        }
        let mut cum = vec![0usize; nmsg + 1];
        for i in 0..nmsg {
            cum[i + 1] = cum[i] + resp[i].len();
        }
        let all_resp: Vec<u8> = resp.concat();
        let lockstep = sc.flag("lockstep");
        let gates: Vec<(usize, usize)> = if lockstep { (1..nmsg).map(|i| (bounds[i], cum[i])).collect() } else { vec![] };

        // fault-free trace T
        let mut ex = process_exec(sc, bytes.clone(), 0);
        ex.gates = gates.clone();
        ex.read_takes_first = sc.flag("take_first");
        let t = exec(&ex, st);
        if t.crashed() {
            return Verdict::Skip("skip:crashed(C05)");
        }
        if lockstep {
            st.bump("fired:lockstep_controller");
        }
        match t.results.last() {
            Some(Some(Err(Tok::Eof))) => {}
            Some(Some(Err(Tok::Deadlock))) => {
                // a genuine deadlock: up to here process did what run does for the same
                // messages, but did not answer.  If it executed something else (other
                // handlers or errors), the missing answer is C07/C08's subject.
                let (tt, rt) = (exec_tokens(&t), exec_tokens(&r));
                if !(tt.len() <= rt.len() && tt[..] == rt[..tt.len()]) {
                    return Verdict::Skip("skip:process-executes-differently-from-run(C07/C08)");
                }
                return v("deadlock", format!("the instrument asked for more input while the controller was still waiting for an answer (lock-step)\n    {}", brief(&t)))
            }
            Some(Some(Ok(()))) => return v("returned-ok", format!("process returned Ok(())\n    {}", brief(&t))),
            other => return v("ended-without-transport-error", format!("{other:?}\n    {}", brief(&t))),
        }
        // C10 is about *when and what* process writes for what it executes.  If it does not
        // execute the same handlers with the same arguments and errors as run does for the
        // same messages, that difference is C07/C08's subject and the expected answers are
        // not known: the scenario is skipped.
        if exec_tokens(&t) != exec_tokens(&r) {
            return Verdict::Skip("skip:process-executes-differently-from-run(C07/C08)");
        }
        // ordering and content on T
        {
            let mut delivered = 0usize;
            let mut written: Vec<u8> = Vec::new();
            let mut flushed = 0usize;
            let mut pending_write = false;
            for (i, e) in t.events.iter().enumerate() {
                match e {
                    Ev::TRead { got, ok, .. } => {
                        // responses of all messages whose terminator has been delivered
                        let done = bounds.iter().skip(1).filter(|&&b| b <= delivered).count();
                        // everything the delivered messages answer must be there; units of the
                        // message in flight may already have answered (a newline inside a
                        // payload makes process execute the units before it early)
                        let upper = cum[(done + 1).min(nmsg)];
                        if written.len() < cum[done] || written.len() > upper || written[..] != all_resp[..written.len().min(all_resp.len())] {
                            return v(
                                "read-before-answer",
                                format!("at transport event {i} read was called with {} message(s) delivered: {} response bytes written, {} expected\n    written [{}] expected [{}]\n    {}", done, written.len(), cum[done], crate::scenario::show(&written), crate::scenario::show(&all_resp[..cum[done]]), brief(&t)),
                            );
                        }
                        if flushed != written.len() || pending_write {
                            return v("read-before-flush", format!("read was called while written response bytes were not flushed\n    {}", brief(&t)));
                        }
                        if *ok {
                            delivered += *got;
                        }
                    }
                    Ev::TWrite { data, .. } => {
                        if data.is_empty() {
                            return v("empty-write", format!("write was called with no data\n    {}", brief(&t)));
                        }
                        written.extend_from_slice(data);
                        pending_write = true;
                    }
                    Ev::TFlush { .. } => {
                        if !pending_write {
                            // a bare flush writes nothing; the statement only forbids writing
                            st.bump("reach:flush_without_write_seen");
                        }
                        flushed = written.len();
                        pending_write = false;
                    }
                    _ => {}
                }
            }
            if written != all_resp {
                return v("content", format!("bytes written [{}] differ from the query responses of the messages [{}]\n    {}", crate::scenario::show(&written), crate::scenario::show(&all_resp), brief(&t)));
            }
            let writes = t.events.iter().filter(|e| matches!(e, Ev::TWrite { .. })).count();
            let responding = resp.iter().filter(|x| !x.is_empty()).count();
            // one write per responding message; a message with newlines inside payloads is
            // executed piecewise and may answer once per piece
            let extra: usize = (0..nmsg).filter(|&i| !resp[i].is_empty()).map(|i| bytes[bounds[i]..bounds[i + 1] - 1].iter().filter(|&&b| b == b'\n').count()).sum();
            if writes < responding || writes > responding + extra {
                return v("write-count", format!("{writes} write calls for {responding} responding messages\n    {}", brief(&t)));
            }
        }
        // never Ok: with an idle transport the future is still pending
        {
            let mut ex = process_exec(sc, bytes.clone(), 0);
            ex.eof_idle = true;
            let o = exec(&ex, st);
            if !(o.idle_reached && o.results == vec![None]) {
                if o.crashed() {
                    return Verdict::Skip("skip:crashed(C05)");
                }
                return v("ended-on-idle-transport", format!("process completed although the transport never failed: {:?}", o.results));
            }
        }
        // transport error at call k
        let m = t.tcalls; // calls 0..m-1 happened in T (the last one is the Eof read)
        let ks: Vec<usize> = match sc.knob("fault_sample") {
            Some(s) => {
                let mut rng = Rng::new(s as u64);
                let mut ks: Vec<usize> = (0..8).map(|_| rng.below(m.max(1))).collect();
                // always include a write and a flush position when there is one
                let mut tk = 0;
                for e in &t.events {
                    if is_t(e) {
                        if matches!(e, Ev::TWrite { .. } | Ev::TFlush { .. }) && ks.len() < 11 {
                            ks.push(tk);
                        }
                        tk += 1;
                    }
                }
                ks.sort();
                ks.dedup();
                ks
            }
            None => (0..m).collect(),
        };
        let mut between_write_and_flush = false;
        for &k in &ks {
            let Some(ti) = t_event_index(&t, k) else { continue };
            let mut ex = process_exec(sc, bytes.clone(), 0);
            ex.gates = gates.clone();
            ex.fault_at = Some(k);
            ex.read_takes_first = sc.flag("take_first");
            ex.restart = sc.flag("restart");
            ex.restart_bounds = bounds.clone();
            let o = exec(&ex, st);
            st.bump("fired:transport_error_positions");
            if o.crashed() {
                return Verdict::Skip("skip:crashed(C05)");
            }
            // (1) identical prefix
            if o.events.len() <= ti || o.events[..ti] != t.events[..ti] {
                return v("prefix-differs", format!("events before transport call {k} differ from the fault-free run\n    fault-free:{}\n    faulted   :{}", brief(&t), brief(&o)));
            }
            // (2) the error comes back unchanged and at once
            match o.results.first() {
                Some(Some(Err(Tok::Fault(x)))) if *x == k => {}
                other => {
                    return v(
                        "error-not-returned",
                        format!("transport call {k} ({:?}) failed; process result: {other:?}\n    {}", t.events[ti], brief(&o)),
                    )
                }
            }
            let end = o.events.iter().enumerate().skip(ti + 1).find(|(_, e)| matches!(e, Ev::Call(_))).map(|(i, _)| i).unwrap_or(o.events.len());
            if let Some(e) = o.events[ti + 1..end].iter().find(|e| is_t(e) || matches!(e, Ev::Enter { .. })) {
                return v("activity-after-error", format!("after the failed transport call {k} the library still did {e:?}\n    {}", brief(&o)));
            }
            if matches!(t.events[ti], Ev::TFlush { .. }) {
                between_write_and_flush = true;
            }
            // (6) restart: messages not yet delivered run exactly once, as in the reference
            if ex.restart && IFACES[sc.iface].family == Family::Tree {
                let delivered: usize = o.events[..end].iter().map(|e| if let Ev::TRead { got, ok: true, .. } = e { *got } else { 0 }).sum();
                let first_undelivered = bounds.iter().position(|&b| b >= delivered).unwrap_or(nmsg);
                let want: Vec<u16> = hand[first_undelivered.min(nmsg)..].concat();
                let got: Vec<u16> = o.events[end..].iter().filter_map(|e| if let Ev::Enter { h, .. } = e { Some(*h) } else { None }).collect();
                let want_resp: Vec<u8> = resp[first_undelivered.min(nmsg)..].concat();
                let got_resp: Vec<u8> = o.events[end..].iter().filter_map(|e| if let Ev::TWrite { data, ok: true } = e { Some(data.clone()) } else { None }).flatten().collect();
                if o.results.len() >= 2 {
                    st.bump("reach:restart_judged");
                    if got != want || got_resp != want_resp {
                        return v("restart", format!("after the transport error at call {k} and a reconnect the messages not yet delivered must run exactly once\n    handlers got {got:?} want {want:?}\n    {}", brief(&o)));
                    }
                    if !matches!(o.results.last(), Some(Some(Err(Tok::Eof)))) {
                        return v("restart", format!("second process call ended with {:?}", o.results.last()));
                    }
                }
            }
        }
        let responding = resp.iter().filter(|x| !x.is_empty()).count();
        if responding >= 2 {
            st.bump("reach:two_or_more_responding_messages");
        }
        if between_write_and_flush {
            st.bump("reach:fault_between_write_and_flush");
        }
        Verdict::Held { nontrivial: responding >= 2 && between_write_and_flush, sig: scenario_sig(sc) }
    }
    fn rule(&self) -> &'static str {
        "one scenario = (tree or queue interface, history of 1..8 messages (queries, commands, blank, faulty), N holding every message and response, read/suspension schedule, pipelined or lock-step controller, reconnect yes/no); the fault-free transport call trace T is recorded and judged for ordering and content, then the run is repeated with a transport error injected at EVERY call index of T (thorough) or at 8 sampled indices plus every write/flush index (quick); distinct = distinct hash of (interface, N, bytes, schedule, controller); non-trivial = at least two responding messages AND an error was injected at a flush, i.e. between a write and its flush"
    }
    fn assumptions(&self) -> Vec<&'static str> {
        vec![
            "every message and every message's responses fit in N; the too-small case is left to C05 (DESIGN 7, O1)",
            "expected response bytes are those run produces for the same messages one at a time (differential); their format is C04's subject",
            "a transport error loses what is buffered inside process; after a reconnect only messages not yet delivered are expected to run (tree interfaces)",
        ]
    }
    fn probes(&self) -> Vec<&'static str> {
        vec!["fired:transport_error_positions", "fired:lockstep_controller", "reach:newline_inside_payload", "reach:history_with_answer_larger_than_N", "reach:two_or_more_responding_messages", "reach:fault_between_write_and_flush", "reach:restart_judged"]
    }
}
