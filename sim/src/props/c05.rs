//! C05 - no input can crash or hang the interpreter.
use simcore::exec::{Exec, Mode, Sink, Tok};
use simcore::rng::Rng;
use simcore::spec::Family;
use simcore::world::Ev;

use super::common::{any_stream, pick_iface};
use super::{exec, scenario_sig};
use crate::gen;
use crate::runner::{Prop, Stats, Verdict};
use crate::scenario::Scenario;

pub struct C05T;
pub static C05: C05T = C05T;

pub fn generate(seed: u64, thorough: bool) -> Scenario {
    let mut rng = Rng::new(seed);
    let (iface, cap) = pick_iface(&mut rng, &[Family::Tree, Family::Tree, Family::Zoo, Family::Queue]);
    let m = simcore::spec::model(iface);
    let n = *rng.pick(simcore::spec::IFACES[iface].ns);
    let (stream, _class) = any_stream(&mut rng, &m, n, 120);
    let mut sc = Scenario { prop: "C05".into(), seed, iface, cap, n, stream, ..Default::default() };
    // 0 process, 1 run+SimWriter(cap), 2 run+heapless<N>, 3 run+heapless<0>, 4 run+heapless<4096>
    let mode = *rng.pick(&[0i64, 0, 0, 1, 1, 2, 3, 4]);
    sc.set("mode", mode);
    if mode == 1 {
        sc.set("sink_cap", if rng.chance(1, 4) { -1 } else { rng.below(65) as i64 });
    }
    if mode == 1 && rng.chance(1, 4) {
        sc.set("per_message", 1);
    }
    let sched = gen::sched(&mut rng, &sc.stream);
    sc.scheds.push(sched);
    if thorough && mode == 0 && rng.chance(1, 5) {
        sc.set("cancel_at", rng.range(1, 6) as i64);
    }
    sc
}

/// class-representative token alphabet of the exhaustive prefix of a batch
pub const ENUM_TOKENS: [&[u8]; 15] = [b"FOO", b"SYST", b":", b";", b"*", b"?", b" ", b",", b"\n", b"\"", b"'", b"#", b"1", b"A", b"E"];

/// number of token strings of length 1..=max_len
pub fn enum_count(max_len: u32) -> u64 {
    (1..=max_len).map(|l| (ENUM_TOKENS.len() as u64).pow(l)).sum()
}

/// the `index`-th token string in length-lexicographic order
pub fn enum_stream(mut index: u64) -> Vec<u8> {
    let k = ENUM_TOKENS.len() as u64;
    let mut len = 1u32;
    while index >= k.pow(len) {
        index -= k.pow(len);
        len += 1;
    }
    let mut toks = Vec::new();
    for _ in 0..len {
        toks.push((index % k) as usize);
        index /= k;
    }
    let mut v = Vec::new();
    for t in toks.iter().rev() {
        v.extend_from_slice(ENUM_TOKENS[*t]);
    }
    v
}

pub fn build_exec(sc: &Scenario) -> Exec {
    let stream = sc.bytes();
    let s = sc.sched(0);
    let mode = match sc.knob("mode").unwrap_or(0) {
        0 => Mode::Process,
        k => {
            let sink = match k {
                1 => Sink::Sim(match sc.knob("sink_cap").unwrap_or(-1) {
                    c if c < 0 => None,
                    c => Some(c as usize),
                }),
                2 => Sink::HeaplessN,
                3 => Sink::Heapless0,
                _ => Sink::Heapless4096,
            };
            let splits = if sc.flag("per_message") { super::newline_splits(&stream) } else { vec![0, stream.len()] };
            Mode::Run { sink, splits }
        }
    };
    let mut ex = Exec::new(sc.iface, sc.cap, sc.n, mode, stream);
    ex.chunks = s.chunks;
    ex.susp = s.susp;
    ex.cancel_at = sc.knob("cancel_at").map(|c| c as u64);
    ex
}

impl Prop for C05T {
    fn id(&self) -> &'static str {
        "C05"
    }
    fn budget(&self, thorough: bool) -> u64 {
        if thorough { 100_000_000 } else { 6_000_000 }
    }
    fn generate(&self, seed: u64, thorough: bool) -> Scenario {
        generate(seed, thorough)
    }
    fn generate_at(&self, index: u64, seed: u64, thorough: bool) -> Scenario {
        // the first indices of a batch enumerate EVERY string of up to 4 (quick) / 5
        // (thorough) tokens of a class-representative alphabet, on the hand-written tree
        // interface; N, delivery mode and schedule are seeded.  Supplementary to the
        // seeded search that follows.
        let max_len = if thorough { 5 } else { 4 };
        if index < enum_count(max_len) {
            let mut rng = Rng::new(seed);
            let iface = 0;
            let n = *rng.pick(simcore::spec::IFACES[iface].ns);
            let mut stream = enum_stream(index);
            if rng.chance(1, 2) {
                stream.push(b'\n');
            }
            let mut sc = Scenario { prop: "C05".into(), seed, iface, cap: 0, n, stream, ..Default::default() };
            let mode = *rng.pick(&[0i64, 0, 1, 2]);
            sc.set("mode", mode);
            sc.set("enumerated", index as i64);
            if mode == 1 {
                sc.set("sink_cap", if rng.chance(1, 2) { -1 } else { rng.below(9) as i64 });
            }
            let sched = gen::sched(&mut rng, &sc.stream);
            sc.scheds.push(sched);
            return sc;
        }
        generate(seed, thorough)
    }
    fn check(&self, sc: &Scenario, st: &mut Stats) -> Verdict {
        let ex = build_exec(sc);
        let o = exec(&ex, st);
        if o.unsupported {
            return Verdict::Skip("skip:unsupported-configuration");
        }
        let v = |class: &str, detail: String| Verdict::Violation { class: class.into(), detail };
        if let Some(p) = &o.panic {
            return v("panic", p.clone());
        }
        if o.pending_no_wake {
            return v("hang-pending-without-wake", "the task returned Pending although no seam had suspended".into());
        }
        if o.spin {
            return v("spin", format!("poll budget exhausted: polls={} injected={}", o.polls, o.injected));
        }
        // every future handed to the executor is polled once per injected
        // suspension plus once to completion (a cancelled one never completes)
        let completed = match &ex.mode {
            Mode::Process => o.results.iter().filter(|r| r.is_some()).count() as u64,
            Mode::Run { .. } => o.block_ons,
        };
        if o.polls != completed + o.injected {
            return v("self-yield", format!("polls={} but completed calls ({}) + injected suspensions ({})", o.polls, completed, o.injected));
        }
        if o.zero_room_read {
            return v("read-into-empty-buffer", "read was called with an empty destination".into());
        }
        match &ex.mode {
            Mode::Process => {
                if o.tcalls > 4 * ex.stream.len() + 2 * ex.chunks.len() + 64 {
                    return v("call-bound", format!("{} transport calls for {} bytes", o.tcalls, ex.stream.len()));
                }
                for r in &o.results {
                    if let Some(Ok(())) = r {
                        return v("process-returned-ok", "process returned Ok(())".into());
                    }
                }
                match o.results.last() {
                    Some(Some(Err(Tok::Eof))) => {}
                    other => return v("process-did-not-end-at-eof", format!("{other:?}")),
                }
                if o.results.len() > 1 {
                    st.bump("fired:cancellation");
                }
            }
            Mode::Run { .. } => {
                if o.not_suffix {
                    return v("run-result-not-a-suffix", format!("remainders={:?}", o.remainders));
                }
            }
        }
        let mut nontrivial = false;
        for e in &o.events {
            match e {
                Ev::WFail => nontrivial = true,
                Ev::Err(microscpi::Error::TooMuchData) | Ev::Err(microscpi::Error::SystemError) => {
                    nontrivial = true
                }
                Ev::TRead { room, ok: true, .. } if *room < ex.n => nontrivial = true,
                _ => {}
            }
        }
        if o.remainders.iter().zip(match &ex.mode { Mode::Run { splits, .. } => splits.windows(2).map(|w| w[1] - w[0]).collect::<Vec<_>>(), _ => vec![] }).any(|(r, l)| *r < l) {
            st.bump("reach:run_returned_remainder");
            nontrivial = true;
        }
        if sc.knob("enumerated").is_some() {
            st.bump("reach:enumerated_token_strings");
        }
        Verdict::Held { nontrivial, sig: scenario_sig(sc) }
    }
    fn rule(&self) -> &'static str {
        "the first 54 240 (quick) / 813 615 (thorough) scenarios enumerate every string of up to 4 / 5 tokens over the alphabet {FOO SYST : ; * ? space , newline \" ' # 1 A E} on interface t0 with seeded N, mode and schedule; then one scenario = (interface, N, byte stream of class arbitrary/by-construction/mutated/oversize, delivery mode process|run with sink kind and capacity, read schedule, suspension tape[, cancellation poll]); distinct = distinct hash of all of these; non-trivial = the run reached a full sink or a response that did not fit, or kept unprocessed bytes across reads (carry-over / compaction / overflow reset), or run returned a non-empty remainder"
    }
    fn assumptions(&self) -> Vec<&'static str> {
        vec![
            "handlers of the generated interfaces do not panic themselves",
            "N and queue capacity come from the compiled menus (const generics), not a continuum",
            "a loop that never returns to the executor is caught by a 10 s watchdog, everything else by poll and call counting",
        ]
    }
    fn probes(&self) -> Vec<&'static str> {
        vec!["reach:enumerated_token_strings", "fired:empty_read", "fired:exact_fill_read", "fired:sink_full", "reach:overflow_reset", "reach:carry_over", "reach:response_did_not_fit", "reach:run_returned_remainder", "fired:suspension"]
    }
}
