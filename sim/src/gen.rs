//! Workload generators.  All randomness of a scenario is consumed here.
use simcore::rng::Rng;
use simcore::spec::{DeclSpec, Model, P, R};

use crate::scenario::{fault, Msg, Sched, Unit};

pub const SPECIAL: &[u8] = b"\n;,:#'\" \t*?";

// ------------------------------------------------------------------ literals

fn dec_in(rng: &mut Rng, lo: i128, hi: i128) -> Vec<u8> {
    let v = match rng.below(8) {
        0 => lo,
        1 => hi,
        2 => 0.max(lo).min(hi),
        3 => {
            // round numbers: powers of ten, multiples of 10^9 / 10^3, zero digit groups
            let k = rng.below(20) as u32;
            let base = 10i128.pow(k);
            let v = match rng.below(4) {
                0 => base,
                1 => base * (1 + rng.below(9) as i128),
                2 => base + rng.below(10) as i128,
                _ => (1 + rng.below(18) as i128) * 1_000_000_000,
            };
            let v = if lo < 0 && rng.chance(1, 2) { -v } else { v };
            v.clamp(lo, hi)
        }
        _ => {
            let span = (hi - lo + 1) as u128;
            lo + ((rng.next() as u128 * 0x1_0000_0000u128 + rng.next() as u128) % span) as i128
        }
    };
    v.to_string().into_bytes()
}

fn int_range(p: P) -> Option<(i128, i128)> {
    Some(match p {
        P::U8 => (0, u8::MAX as i128),
        P::I8 => (i8::MIN as i128, i8::MAX as i128),
        P::U16 => (0, u16::MAX as i128),
        P::I16 => (i16::MIN as i128, i16::MAX as i128),
        P::U32 => (0, u32::MAX as i128),
        P::I32 => (i32::MIN as i128, i32::MAX as i128),
        P::U64 => (0, u64::MAX as i128),
        P::I64 => (i64::MIN as i128, i64::MAX as i128),
        P::Usize => (0, usize::MAX as i128),
        P::Isize => (isize::MIN as i128, isize::MAX as i128),
        _ => return None,
    })
}

const FLOATS: &[&str] = &["0", "1", "-1", "1.5", "-2.25", "0.125", "3e2", "1.5E-2", "-7.0", "12.75", "100", "6.02E23"];

/// plain payload characters (no separators, quotes or white space)
fn plain_bytes(rng: &mut Rng, max: usize) -> Vec<u8> {
    let n = rng.below(max + 1);
    (0..n).map(|_| *rng.pick(b"abcdefghijklmnopqrstuvwxyz0123456789_-+.")).collect()
}

pub fn quote(q: u8, payload: &[u8]) -> Vec<u8> {
    let mut v = vec![q];
    v.extend_from_slice(payload);
    v.push(q);
    v
}

/// `#<d><len>` + payload, `pad` extra leading zeros in the length field
pub fn block(payload: &[u8], pad: usize) -> Vec<u8> {
    let len = payload.len().to_string();
    let digits = (len.len() + pad).min(9);
    let mut v = format!("#{}{:0>width$}", digits, len, width = digits).into_bytes();
    v.extend_from_slice(payload);
    v
}

/// a valid literal for a parameter of type `p`, canonical spelling, payloads
/// free of separators and newlines
pub fn plain_literal(rng: &mut Rng, p: P) -> Vec<u8> {
    if let Some((lo, hi)) = int_range(p) {
        let d = dec_in(rng, lo, hi);
        // one integer in eight is written in #H / #Q / #B notation (non-negative values)
        if rng.chance(1, 8) {
            if let Ok(v) = std::str::from_utf8(&d).unwrap_or("x").parse::<u128>() {
                return match rng.below(3) {
                    0 => format!("#H{v:X}").into_bytes(),
                    1 => format!("#Q{v:o}").into_bytes(),
                    _ => format!("#B{v:b}").into_bytes(),
                };
            }
        }
        return d;
    }
    match p {
        P::F32 | P::F64 => rng.pick(FLOATS).as_bytes().to_vec(),
        P::Bool => rng.pick(&["ON", "OFF", "1", "0"]).as_bytes().to_vec(),
        P::Str => {
            let q = if rng.chance(1, 2) { b'"' } else { b'\'' };
            quote(q, &plain_bytes(rng, 8))
        }
        P::Blk => {
            let pad = if rng.chance(1, 6) { rng.below(3) } else { 0 };
            block(&plain_bytes(rng, 10), pad)
        }
        _ => unreachable!(),
    }
}

/// string payload over everything the syntax permits except the enclosing
/// quote, biased to separators and newline; valid UTF-8
pub fn special_str_payload(rng: &mut Rng, q: u8, max: usize, newlines: bool) -> Vec<u8> {
    let n = rng.below(max + 1);
    let mut v = Vec::new();
    for _ in 0..n {
        match rng.below(10) {
            0..=4 => {
                let c = *rng.pick(SPECIAL);
                if c != q && (newlines || c != b'\n') {
                    v.push(c);
                } else {
                    v.push(b'x');
                }
            }
            5 => {
                const PALETTE: [&str; 17] = [
                    "é", "ß", "€", "✓", "\u{1F600}",
                    // code points whose low byte is a syntax character (\" ' LF ; , : # space)
                    "\u{2122}", "\u{0122}", "\u{2022}", "\u{0127}", "\u{2227}", "\u{010A}", "\u{203B}", "\u{212C}", "\u{013A}", "\u{0123}", "\u{0120}", "\u{220A}",
                ];
                if rng.chance(1, 3) {
                    // any scalar value from a few blocks
                    let cp = match rng.below(4) {
                        0 => 0x80 + rng.below(0x780) as u32,
                        1 => 0x800 + rng.below(0x2800) as u32,
                        2 => 0x3000 + rng.below(0x9000) as u32,
                        _ => 0x1F300 + rng.below(0x400) as u32,
                    };
                    if let Some(c) = char::from_u32(cp) {
                        let mut b = [0u8; 4];
                        v.extend_from_slice(c.encode_utf8(&mut b).as_bytes());
                    }
                } else {
                    v.extend_from_slice(PALETTE[rng.below(PALETTE.len())].as_bytes());
                }
            }
            6 => {
                // any ASCII byte but the quote (incl. NUL, DEL and the other control characters)
                let c = rng.below(128) as u8;
                if c != q && (newlines || c != b'\n') {
                    v.push(c);
                }
            }
            7 if newlines && rng.chance(1, 4) => {
                const NULS: [&[u8]; 4] = [b"\n\0", b"\n\0\0", b"\n\0\0\0", b"\0\n"];
                v.extend_from_slice(NULS[rng.below(4)])
            }
            _ => v.push(*rng.pick(b"abcXYZ019")),
        }
    }
    v
}

pub fn special_blk_payload(rng: &mut Rng, max: usize, newlines: bool) -> Vec<u8> {
    let n = rng.below(max + 1);
    (0..n)
        .map(|_| {
            let c = match rng.below(4) {
                0 if rng.chance(1, 6) => 0u8,
                0 | 1 => *rng.pick(SPECIAL),
                2 => rng.byte(),
                _ => *rng.pick(b"abc019"),
            };
            if !newlines && c == b'\n' {
                b'x'
            } else {
                c
            }
        })
        .collect()
}

#[derive(Clone, Copy, PartialEq, Debug)]
pub enum Payloads {
    /// no separators, no newline
    Plain,
    /// separators but no newline
    Special,
    /// separators and newlines
    SpecialNl,
}

pub fn literal(rng: &mut Rng, p: P, pay: Payloads) -> Vec<u8> {
    match (p, pay) {
        (P::Str, Payloads::Special) | (P::Str, Payloads::SpecialNl) => {
            let q = if rng.chance(1, 2) { b'"' } else { b'\'' };
            quote(q, &special_str_payload(rng, q, 12, pay == Payloads::SpecialNl))
        }
        (P::Blk, Payloads::Special) | (P::Blk, Payloads::SpecialNl) => {
            let pad = if rng.chance(1, 5) { rng.below(8) } else { 0 };
            // mostly short payloads, now and then hundreds of bytes
            let max = if rng.chance(1, 40) { *rng.pick(&[255usize, 256, 300, 600]) } else { 12 };
            block(&special_blk_payload(rng, max, pay == Payloads::SpecialNl), pad)
        }
        _ => plain_literal(rng, p),
    }
}

// ------------------------------------------------------------------ units

pub fn is_fail(d: &DeclSpec) -> bool {
    matches!(d.ret, R::Fail | R::FailQ)
}

/// textual path context rule of the property statement: the context after a
/// unit is its full header minus the last mnemonic; ':' starts at the root;
/// common commands leave it untouched
pub fn full_header(ctx: &[String], u: &Unit) -> Vec<String> {
    if u.colon {
        u.mnems.clone()
    } else {
        let mut f = ctx.to_vec();
        f.extend(u.mnems.iter().cloned());
        f
    }
}

pub fn ctx_after(ctx: &[String], u: &Unit) -> Vec<String> {
    if u.is_common() {
        return ctx.to_vec();
    }
    let mut f = full_header(ctx, u);
    f.pop();
    f
}

/// the unit rewritten as an absolute one (`:A:B:C args`), by the textual rule
pub fn absolute(ctx: &[String], u: &Unit) -> Unit {
    if u.is_common() {
        return u.clone();
    }
    let mut a = u.clone();
    a.mnems = full_header(ctx, u);
    a.colon = true;
    a
}

pub struct UnitOpts {
    pub payloads: Payloads,
    pub allow_fail: bool,
    pub allow_common: bool,
}

fn args_for(rng: &mut Rng, d: &DeclSpec, pay: Payloads) -> Vec<Vec<u8>> {
    if is_fail(d) {
        return vec![fail_code(rng).to_string().into_bytes()];
    }
    d.params.iter().map(|&p| literal(rng, p, pay)).collect()
}

pub fn fail_code(rng: &mut Rng) -> i16 {
    if rng.chance(1, 6) {
        // the handler raises one of the library's standard errors, or Custom(0, "")
        return *rng.pick(&[-113i16, -200, -220, -221, -222, -224, -240, -400, 0]);
    }
    // unique-looking device specific codes, away from the standard numbers
    (1000 + rng.below(20000)) as i16 * if rng.chance(1, 2) { 1 } else { -1 }
}

/// a valid unit given the current path context; kind is chosen at random among
/// relative (continuing the context), absolute and common
pub fn valid_unit(rng: &mut Rng, m: &Model, ctx: &[String], o: &UnitOpts) -> Option<Unit> {
    let ctx_refs: Vec<&str> = ctx.iter().map(|s| s.as_str()).collect();
    for _ in 0..8 {
        let kind = rng.below(10);
        let (cands, colon, skip): (Vec<usize>, bool, usize) = if kind < 5 && !ctx.is_empty() {
            (m.continuing(&ctx_refs), false, ctx.len())
        } else if kind < 9 || !o.allow_common {
            // absolute, or root-relative when the context is the root
            let colon = !ctx.is_empty() || rng.chance(1, 2);
            (m.continuing(&[]), colon, 0)
        } else {
            (m.commons(), false, 0)
        };
        let cands: Vec<usize> =
            cands.into_iter().filter(|&i| o.allow_fail || !is_fail(m.decl(m.spelled[i].decl))).collect();
        if cands.is_empty() {
            continue;
        }
        let sp = &m.spelled[*rng.pick(&cands)];
        let d = m.decl(sp.decl);
        return Some(Unit {
            colon,
            mnems: sp.path[skip..].iter().map(|s| s.to_string()).collect(),
            query: d.query,
            args: args_for(rng, d, o.payloads),
            fault: fault::NONE,
            raw: None,
            ws_after: vec![],
            good: None,
        });
    }
    None
}

pub struct MsgOpts {
    pub max_units: usize,
    pub unit: UnitOpts,
    pub blank: bool,
}

pub fn valid_msg(rng: &mut Rng, m: &Model, o: &MsgOpts) -> Msg {
    if o.blank && rng.chance(1, 10) {
        let lead = if rng.chance(1, 2) { vec![] } else { vec![b' '; rng.range(1, 3)] };
        return Msg { units: vec![], semi: false, lead, trail: vec![] };
    }
    let n = rng.range(1, o.max_units);
    let mut units = Vec::new();
    let mut ctx: Vec<String> = Vec::new();
    for _ in 0..n {
        if let Some(u) = valid_unit(rng, m, &ctx, &o.unit) {
            ctx = ctx_after(&ctx, &u);
            units.push(u);
        }
    }
    // white space in front of the first unit is allowed (and skipped) by the syntax
    let lead = if o.blank && rng.chance(1, 8) { vec![*rng.pick(b" \t"); rng.range(1, 3)] } else { vec![] };
    // ... and so is white space in front of the terminator (the CR of CR LF among it)
    let trail: Vec<u8> = if o.blank && rng.chance(1, 10) { rng.pick(&[&b"\r"[..], b" ", b" \r", b"\t", b"\x0b", b"\x0c", b"\x01", b"\x0b\r", b"  \x0b"]).to_vec() } else { vec![] };
    Msg { units, semi: o.blank && rng.chance(1, 8), lead, trail }
}

// ------------------------------------------------------------------ faults

pub const SYNTAX_SHAPES: &[&str] = &[
    "!", "FOO!", "FOO 1 2", "FOO ,", "FOO 1,", "FOO::BAR", "1FOO", "FOO 1,,2", "FOO @", "SYST:", "FOO &",
    "FOO #HZZ", "FOO 1e", "\"str\"", "FOO??", "FOO ?", "*", "**RST", "FOO #Q9", "FOO #B2", "= 1",
    // malformed block headers that are complete (no data is awaited)
    "FOO #H", "FOO #B", "FOO #Q", "FOO 1,#H", "FOO #h", "FOO 1e+", "FOO -", "FOO +.", "BLK #1:", "BLK #1/", "BLK #1a", "BLK #2 1x", "BLK #0", "BLK #", "BLK #1-", "BLK #1+", "BLK #2:0",
];

/// the declaration `path` (compound, spelled) with the same kind exists?
fn declared(m: &Model, path: &[String], query: bool) -> bool {
    m.spelled.iter().any(|s| {
        m.decl(s.decl).query == query && s.path.len() == path.len() && s.path.iter().zip(path).all(|(a, b)| a.eq_ignore_ascii_case(b))
    })
}

/// the declaration a header resolves to by the textual rule (harness model)
pub fn resolve(m: &Model, path: &[String], query: bool) -> Option<usize> {
    m.spelled
        .iter()
        .find(|s| m.decl(s.decl).query == query && s.path.len() == path.len() && s.path.iter().zip(path).all(|(a, b)| a.eq_ignore_ascii_case(b)))
        .map(|s| s.decl)
}

fn wrong_kind_literal(rng: &mut Rng, p: P) -> Vec<u8> {
    match p {
        P::Str => rng.pick(&["12", "#13abc", "ON"]).as_bytes().to_vec(),
        P::Blk => rng.pick(&["12", "\"abc\"", "ON"]).as_bytes().to_vec(),
        P::Bool => rng.pick(&["2", "MAYBE", "\"ON\"", "-1", "1.0"]).as_bytes().to_vec(),
        P::F32 | P::F64 => rng.pick(&["\"1.5\"", "ABC", "#12ab", "#HFF"]).as_bytes().to_vec(),
        _ => {
            let (lo, hi) = int_range(p).unwrap();
            match rng.below(8) {
                // just beyond the type's range, and just beyond 64 bits, in #H / #Q / #B notation
                5 => {
                    let v = (hi + 1 + rng.below(3) as i128) as u128;
                    match rng.below(3) {
                        0 => format!("#H{v:X}").into_bytes(),
                        1 => format!("#Q{v:o}").into_bytes(),
                        _ => format!("#B{v:b}").into_bytes(),
                    }
                }
                6 | 7 => {
                    let v = (1u128 << 64) + rng.below(200) as u128 + if rng.chance(1, 2) { (rng.below(6) as u128) << 64 } else { 0 };
                    match rng.below(4) {
                        0 => format!("#H{v:X}").into_bytes(),
                        1 => format!("#Q{v:o}").into_bytes(),
                        2 => format!("#B{v:b}").into_bytes(),
                        _ => v.to_string().into_bytes(),
                    }
                }
                0 => (hi + 1).to_string().into_bytes(),
                1 => (lo - 1).to_string().into_bytes(),
                2 => b"\"7\"".to_vec(),
                3 => b"1.5".to_vec(),
                _ => b"ABC".to_vec(),
            }
        }
    }
}

/// Turns the valid unit `u` (resolved in context `ctx`) into a faulty one of
/// `kind`.  Returns None when the kind does not apply to this unit.
pub fn make_faulty(rng: &mut Rng, m: &Model, ctx: &[String], u: &Unit, kind: u8) -> Option<Unit> {
    let mut f = u.clone();
    f.fault = kind;
    f.good = Some(Box::new(u.clone()));
    match kind {
        fault::SYNTAX => {
            f.raw = Some(rng.pick(SYNTAX_SHAPES).as_bytes().to_vec());
        }
        fault::UNDEFINED => {
            if u.is_common() {
                if rng.chance(1, 2) && !declared(m, &u.mnems, !u.query) {
                    // the other kind of an existing common command (*RST? / *IDN)
                    f.query = !u.query;
                    f.args.clear();
                } else {
                    f.mnems = vec!["*NOPE".into()];
                }
            } else {
                let full = full_header(ctx, u);
                // the variants that depend on what the header resolves to are only used
                // for a unit that starts at the root (first unit of its message)
                let variants = if ctx.is_empty() && !u.colon { 7 } else { 2 };
                match rng.below(variants).min(4) {
                    4 => {
                        // a leaf that is declared elsewhere in the tree, grafted below this
                        // header's directory where it is not declared (misplaced level)
                        let mut dir = full.clone();
                        dir.pop();
                        let mut leaves: Vec<&str> = m.spelled.iter().filter(|s| !m.decl(s.decl).is_common()).filter_map(|s| s.path.last().copied()).collect();
                        // half of the time: a leaf of a SIBLING directory (same parent, other
                        // name), the likeliest thing a confused lookup would graft on
                        if rng.chance(1, 2) && !dir.is_empty() {
                            let sib: Vec<&str> = m
                                .spelled
                                .iter()
                                .filter(|s| {
                                    !m.decl(s.decl).is_common()
                                        && s.path.len() == dir.len() + 1
                                        && s.path[..dir.len() - 1].iter().zip(&dir[..dir.len() - 1]).all(|(a, b)| a.eq_ignore_ascii_case(b))
                                        && !s.path[dir.len() - 1].eq_ignore_ascii_case(&dir[dir.len() - 1])
                                })
                                .filter_map(|s| s.path.last().copied())
                                .collect();
                            if !sib.is_empty() {
                                leaves = sib;
                            }
                            // ... and among the siblings, those whose name is closest to this
                            // directory's (longest common prefix of at least three characters)
                            let me = dir[dir.len() - 1].to_ascii_uppercase();
                            let common = |a: &str| a.bytes().zip(me.bytes()).take_while(|(x, y)| x.eq_ignore_ascii_case(y)).count();
                            let near: Vec<(&str, usize)> = m
                                .spelled
                                .iter()
                                .filter(|s| {
                                    !m.decl(s.decl).is_common()
                                        && s.path.len() == dir.len() + 1
                                        && s.path[..dir.len() - 1].iter().zip(&dir[..dir.len() - 1]).all(|(a, b)| a.eq_ignore_ascii_case(b))
                                        && !s.path[dir.len() - 1].eq_ignore_ascii_case(&dir[dir.len() - 1])
                                })
                                .map(|s| (*s.path.last().unwrap(), common(s.path[dir.len() - 1])))
                                .collect();
                            let best = near.iter().map(|x| x.1).max().unwrap_or(0);
                            if best >= 3 && rng.chance(2, 3) {
                                leaves = near.iter().filter(|x| x.1 == best).map(|x| x.0).collect();
                            }
                        }
                        leaves.sort();
                        leaves.dedup();
                        let leaf = *rng.pick(&leaves);
                        let mut cand = dir.clone();
                        cand.push(leaf.to_string());
                        if declared(m, &cand, u.query) || declared(m, &cand, !u.query) || m.continuing(&cand.iter().map(|x| x.as_str()).collect::<Vec<_>>()).len() > 0 {
                            return None;
                        }
                        *f.mnems.last_mut()? = leaf.to_string();
                        f.args.clear();
                    }
                    0 => {
                        // unknown mnemonic at the leaf
                        *f.mnems.last_mut()? = "NOPE".into();
                    }
                    1 => {
                        // extra level
                        f.mnems.push("NOPE".into());
                    }
                    2 => {
                        // the other kind on a node that has only this kind
                        if declared(m, &full, !u.query) {
                            return None;
                        }
                        f.query = !u.query;
                        if !f.query {
                            f.args.clear();
                        }
                    }
                    _ => {
                        // interior node: header minus its last mnemonic
                        if f.mnems.len() < 2 {
                            return None;
                        }
                        let mut p = full.clone();
                        p.pop();
                        if declared(m, &p, u.query) {
                            return None;
                        }
                        f.mnems.pop();
                        f.args.clear();
                    }
                }
            }
        }
        fault::ARITY => {
            let d_n = u.args.len();
            match rng.below(4) {
                0 if d_n > 0 => {
                    f.args.pop();
                }
                1 => {
                    f.args.push(b"1".to_vec());
                }
                2 => {
                    // more than MAX_ARGS
                    while f.args.len() < 11 {
                        f.args.push(b"1".to_vec());
                    }
                }
                _ => {
                    if d_n > 0 {
                        f.args.clear();
                    } else {
                        f.args.push(b"\"x\"".to_vec());
                    }
                }
            }
        }
        fault::CONVERT => {
            // needs the declaration to know the parameter types
            let full = full_header(ctx, u);
            let sp = m.spelled.iter().find(|s| {
                m.decl(s.decl).query == u.query
                    && s.path.len() == full.len()
                    && s.path.iter().zip(&full).all(|(a, b)| a.eq_ignore_ascii_case(b))
            });
            let d = match (u.is_common(), sp) {
                (false, Some(sp)) => m.decl(sp.decl),
                _ => return None,
            };
            if d.params.is_empty() || is_fail(d) {
                return None;
            }
            let i = rng.below(d.params.len());
            f.args[i] = wrong_kind_literal(rng, d.params[i]);
        }
        fault::HANDLER => {
            // replace by a FAIL handler living in the same directory
            if u.is_common() {
                return None;
            }
            let mut full = full_header(ctx, u);
            full.pop();
            full.push("FAIL".into());
            let q = if declared(m, &full, false) {
                false
            } else if declared(m, &full, true) {
                true
            } else {
                return None;
            };
            *f.mnems.last_mut()? = "FAIL".into();
            f.query = q;
            f.args = vec![fail_code(rng).to_string().into_bytes()];
        }
        _ => return None,
    }
    Some(f)
}

// ------------------------------------------------------------------ streams

/// token soup over the interface's own vocabulary and raw bytes
pub fn arbitrary_stream(rng: &mut Rng, m: &Model, max: usize) -> Vec<u8> {
    let target = rng.below(max + 1);
    let mut v: Vec<u8> = Vec::new();
    let toks: &[&[u8]] = &[
        b"\n", b"\n", b"\n", b";", b";", b":", b":", b",", b" ", b" ", b"?", b"*", b"#", b"\"", b"'", b"\r\n", b"\t",
        b"#1", b"#2", b"#9", b"#H", b"#Q", b"#B", b"#0", b"#15", b"#210", b"1", b"0", b"-", b"+", b".", b"e", b"E",
        b"ON", b"OFF", b"255", b"256", b"-1", b"1.5", b"1e3", b"\"a\"", b"'b'", b"#13abc", b"#11\n",
    ];
    while v.len() < target {
        match rng.below(12) {
            0..=3 => {
                // a mnemonic of the interface
                let sp = rng.pick(&m.spelled);
                let x = rng.pick(&sp.path);
                v.extend_from_slice(x.as_bytes());
            }
            4 => {
                // a whole spelled header
                let sp = rng.pick(&m.spelled);
                v.extend_from_slice(sp.path.join(":").as_bytes());
                if m.decl(sp.decl).query {
                    v.push(b'?');
                }
            }
            5..=9 => {
                let t: &[u8] = toks[rng.below(toks.len())];
                v.extend_from_slice(t)
            }
            10 => v.push(rng.byte()),
            _ if rng.chance(1, 3) => {
                // identifier of arbitrary length and case, sometimes as a common command
                if rng.chance(1, 3) {
                    v.push(b'*');
                }
                let n = *rng.pick(&[1usize, 4, 5, 11, 12, 13, 16, 17, 18, 19, 20, 33]);
                for _ in 0..n {
                    v.push(*rng.pick(b"abcdefghijklmnopqrstuvwxyzABCDEFGHIJKLMNOPQRSTUVWXYZ019_"));
                }
            }
            _ if rng.chance(1, 2) => {
                // a mnemonic of the interface in lower or mixed case
                let sp = rng.pick(&m.spelled);
                let x = rng.pick(&sp.path);
                let lower = rng.chance(1, 2);
                for b in x.bytes() {
                    v.push(if lower || rng.chance(1, 2) { b.to_ascii_lowercase() } else { b });
                }
            }
            _ => v.push(*rng.pick(b"abcXYZ_09 \n")),
        }
    }
    v.truncate(max.max(target));
    v
}

/// mutation of a well-formed stream: delete / insert / flip / truncate
pub fn mutate(rng: &mut Rng, s: &mut Vec<u8>) {
    let k = rng.range(1, 3);
    for _ in 0..k {
        if s.is_empty() {
            s.push(rng.byte());
            continue;
        }
        let i = rng.below(s.len());
        match rng.below(5) {
            0 => {
                s.remove(i);
            }
            1 => s.insert(i, *rng.pick(SPECIAL)),
            2 => s.insert(i, rng.byte()),
            3 => s[i] ^= 1 << rng.below(8),
            _ => s.truncate(i),
        }
    }
}

// ------------------------------------------------------------------ schedules

#[derive(Clone, Copy, PartialEq, Debug)]
pub enum ChunkStyle {
    Max,
    Bytes,
    Aligned,
    Random,
    AroundNewline,
    FillThenSmall,
}

pub const CHUNK_STYLES: [ChunkStyle; 6] = [
    ChunkStyle::Max,
    ChunkStyle::Bytes,
    ChunkStyle::Aligned,
    ChunkStyle::Random,
    ChunkStyle::AroundNewline,
    ChunkStyle::FillThenSmall,
];

pub fn chunks(rng: &mut Rng, stream: &[u8], style: ChunkStyle, empties: bool) -> Vec<u32> {
    let len = stream.len();
    let mut v: Vec<u32> = Vec::new();
    match style {
        ChunkStyle::Max => {}
        ChunkStyle::Bytes => v = vec![1; len],
        ChunkStyle::Aligned => {
            let mut last = 0;
            for (i, &b) in stream.iter().enumerate() {
                if b == b'\n' {
                    v.push((i + 1 - last) as u32);
                    last = i + 1;
                }
            }
        }
        ChunkStyle::Random => {
            let mx = rng.range(1, 9);
            let mut left = len;
            while left > 0 {
                let c = rng.range(1, mx).min(left);
                v.push(c as u32);
                left -= c;
            }
        }
        ChunkStyle::AroundNewline => {
            // boundaries just before / just after newlines, and a few random ones
            let mut cuts: Vec<usize> = Vec::new();
            for (i, &b) in stream.iter().enumerate() {
                if b == b'\n' {
                    match rng.below(4) {
                        0 => cuts.push(i),
                        1 => cuts.push(i + 1),
                        2 => {
                            cuts.push(i);
                            cuts.push(i + 1);
                        }
                        _ => {}
                    }
                }
            }
            for _ in 0..rng.below(3) {
                if len > 0 {
                    cuts.push(rng.below(len));
                }
            }
            cuts.sort();
            cuts.dedup();
            let mut last = 0;
            for c in cuts {
                if c > last && c < len {
                    v.push((c - last) as u32);
                    last = c;
                }
            }
        }
        ChunkStyle::FillThenSmall => {
            let mut left = len as i64;
            while left > 0 {
                if rng.chance(1, 2) {
                    v.push(u32::MAX);
                    left -= 8;
                } else {
                    let c = rng.range(1, 3);
                    v.push(c as u32);
                    left -= c as i64;
                }
            }
        }
    }
    if empties {
        let mut w = Vec::new();
        for c in v {
            if rng.chance(1, 5) {
                w.push(0);
            }
            w.push(c);
        }
        if rng.chance(1, 2) {
            w.insert(0, 0);
        }
        v = w;
    }
    v
}

pub fn suspensions(rng: &mut Rng, len: usize, density: u64) -> Vec<u8> {
    if density == 0 {
        return Vec::new();
    }
    (0..len).map(|_| if rng.chance(density, 10) { rng.range(1, 3) as u8 } else { 0 }).collect()
}

pub fn sched(rng: &mut Rng, stream: &[u8]) -> Sched {
    let style = *rng.pick(&CHUNK_STYLES);
    let empties = rng.chance(1, 3);
    let density = *rng.pick(&[0u64, 0, 1, 3, 6]);
    Sched { chunks: chunks(rng, stream, style, empties), susp: suspensions(rng, 24 + stream.len() / 2, density) }
}
