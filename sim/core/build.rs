fn main() {
    println!("cargo:rerun-if-changed=build.rs");
    let seed = ifgen::tree_seed();
    let dir = std::env::var("OUT_DIR").unwrap();
    std::fs::write(format!("{dir}/spec_tables.rs"), ifgen::emit_spec(seed)).unwrap();
}
