//! Spec tables emitted by build.rs next to the generated interfaces, and the
//! spelling model the stream generators use to *construct* valid headers.
//! The model is used to build workloads, never as an oracle.

#[derive(Clone, Copy, PartialEq, Eq, Debug)]
pub enum P {
    U8, I8, U16, I16, U32, I32, U64, I64, Usize, Isize, F32, F64, Bool, Str, Blk,
}

#[allow(dead_code)]
#[derive(Clone, Copy, PartialEq, Eq, Debug)]
pub enum R {
    Unit, Hid, EchoStr, EchoU32, Idn, Fail, FailQ,
    ZU8, ZI8, ZU16, ZI16, ZU32, ZI32, ZU64, ZI64, ZUsize, ZIsize,
    ZF32, ZF64, ZBool, ZStr, ZStrB, ZHStr, ZHStrB, ZSStr, ZSStrB, ZChar, ZBlk, ZErr,
    ZTup2, ZTup3, ZTup4, ZNest, ZSliceI16, ZHVecU32, ZHVecF64, ZHVecStr, ZHVecBlk, ZTupSlice, ZUnitQ, Big,
}

#[derive(Clone, Copy, PartialEq, Eq, Debug)]
pub enum Family {
    Tree,
    Zoo,
    Queue,
}

#[derive(Clone, Copy, PartialEq, Eq, Debug)]
pub enum StdRole {
    User,
    Version,
    ErrNext,
    ErrCount,
}

#[derive(Debug)]
pub struct PartSpec {
    pub short: &'static str,
    pub long: &'static str,
    pub optional: bool,
}

#[derive(Debug)]
pub struct DeclSpec {
    pub hid: usize,
    pub parts: &'static [PartSpec],
    pub query: bool,
    pub params: &'static [P],
    pub ret: R,
    pub is_async: bool,
    pub std_only: bool,
    pub role: StdRole,
}

impl DeclSpec {
    pub fn is_common(&self) -> bool {
        self.parts.len() == 1 && self.parts[0].long.starts_with('*')
    }
    pub fn available(&self) -> bool {
        !self.std_only || cfg!(feature = "std")
    }
}

#[derive(Debug)]
pub struct IfaceSpec {
    pub index: usize,
    pub name: &'static str,
    pub family: Family,
    /// command buffer sizes compiled for this interface
    pub ns: &'static [usize],
    /// queue capacities compiled for this interface ([0] = not generic)
    pub caps: &'static [usize],
    pub decls: &'static [DeclSpec],
}

include!(concat!(env!("OUT_DIR"), "/spec_tables.rs"));

pub const QUEUE_CAPS: [usize; 5] = [1, 2, 3, 4, 10];

/// One way of spelling one declaration.
#[derive(Clone, Debug)]
pub struct Spelled {
    pub decl: usize,
    pub path: Vec<&'static str>,
}

pub struct Model {
    pub iface: &'static IfaceSpec,
    pub spelled: Vec<Spelled>,
}

impl Model {
    pub fn of(index: usize) -> Model {
        let iface = &IFACES[index];
        let mut spelled = Vec::new();
        for (di, d) in iface.decls.iter().enumerate() {
            if !d.available() {
                continue;
            }
            let mut paths: Vec<Vec<&'static str>> = vec![vec![]];
            for p in d.parts {
                let mut n = Vec::new();
                for path in &paths {
                    let mut l = path.clone();
                    l.push(p.long);
                    n.push(l);
                    if p.short != p.long {
                        let mut s = path.clone();
                        s.push(p.short);
                        n.push(s);
                    }
                    if p.optional {
                        n.push(path.clone());
                    }
                }
                paths = n;
            }
            for path in paths {
                if !path.is_empty() {
                    spelled.push(Spelled { decl: di, path });
                }
            }
        }
        Model { iface, spelled }
    }

    pub fn decl(&self, i: usize) -> &'static DeclSpec {
        &self.iface.decls[i]
    }

    /// spellings (indices into `spelled`) of compound (non-common) headers
    /// that continue `prefix` by at least one mnemonic
    pub fn continuing(&self, prefix: &[&str]) -> Vec<usize> {
        let mut v = Vec::new();
        for (i, s) in self.spelled.iter().enumerate() {
            if self.decl(s.decl).is_common() {
                continue;
            }
            if s.path.len() > prefix.len() && s.path[..prefix.len()] == *prefix {
                v.push(i);
            }
        }
        v
    }

    pub fn commons(&self) -> Vec<usize> {
        (0..self.spelled.len()).filter(|&i| self.decl(self.spelled[i].decl).is_common()).collect()
    }
}

/// cached model of interface `index`
pub fn model(index: usize) -> &'static Model {
    static CACHE: std::sync::OnceLock<Vec<Model>> = std::sync::OnceLock::new();
    &CACHE.get_or_init(|| (0..IFACES.len()).map(Model::of).collect())[index]
}

pub fn ifaces_of(f: Family) -> Vec<usize> {
    IFACES.iter().filter(|i| i.family == f).map(|i| i.index).collect()
}
