//! The executor and the I/O seams: one task, polled by a loop the simulator
//! owns; a scripted transport (`Adapter`), a scripted response sink (`Write`);
//! drivers for `Interface::run` and `Interface::process`.
//!
//! `execute(&Exec)` draws nothing: every choice is read from the explicit
//! tape inside `Exec`; an exhausted tape means "largest read, no suspension,
//! no fault".
use std::cell::Cell;
use std::future::Future;
use std::panic::{catch_unwind, AssertUnwindSafe};
use std::pin::pin;
use std::rc::Rc;
use std::task::{Context, Poll, RawWaker, RawWakerVTable, Waker};

use microscpi::{Adapter, Error, Write};

use crate::alloc::{self, Harness, Library};
use crate::world::{Ev, SimIface, World};

// ---------------------------------------------------------------- scenario

#[derive(Clone, Copy, PartialEq, Eq, Debug)]
pub enum Sink {
    /// pass-through recording writer, optional capacity
    Sim(Option<usize>),
    /// `heapless::Vec<u8, N>` (N = command buffer size of the scenario)
    HeaplessN,
    /// `heapless::Vec<u8, 4096>`
    Heapless4096,
    /// `heapless::Vec<u8, 0>`
    Heapless0,
    /// `std::vec::Vec<u8>` (std feature only)
    StdVec,
}

#[derive(Clone, PartialEq, Eq, Debug)]
pub enum Mode {
    /// `run` called once per slice `stream[splits[i]..splits[i+1]]` on the same
    /// interface object (splits = [0, len] for one call with the whole buffer)
    Run { sink: Sink, splits: Vec<usize> },
    /// `process::<N>` fed from the scripted transport
    Process,
}

#[derive(Clone, PartialEq, Eq, Debug)]
pub struct Exec {
    pub iface: usize,
    pub cap: usize,
    pub n: usize,
    pub mode: Mode,
    pub stream: Vec<u8>,
    /// per read call: requested size (0 = empty read, u32::MAX = all there is)
    pub chunks: Vec<u32>,
    /// per suspendable seam call, in global call order: number of `Pending`s
    pub susp: Vec<u8>,
    /// transport call index (reads, writes and flushes counted together) that fails
    pub fault_at: Option<usize>,
    /// after the injected fault, call `process` again on the same interface
    pub restart: bool,
    /// lock-step controller: bytes from stream offset `.0` on are withheld
    /// until `.1` response bytes have been written and flushed
    pub gates: Vec<(usize, usize)>,
    /// at end of stream `read` stays pending forever instead of failing
    pub eof_idle: bool,
    /// drop the `process` future after this many polls (if still pending)
    /// and start a new `process` on the same interface
    pub cancel_at: Option<u64>,
    /// the transport's `read` is not cancel-safe: it takes the bytes off the link first and
    /// suspends afterwards, so a read future that is dropped while pending loses them
    pub read_takes_first: bool,
    /// on restart the controller continues with the next message: the
    /// delivery position is advanced to the next of these stream offsets
    pub restart_bounds: Vec<usize>,
}

impl Exec {
    pub fn new(iface: usize, cap: usize, n: usize, mode: Mode, stream: Vec<u8>) -> Exec {
        Exec {
            iface,
            cap,
            n,
            mode,
            stream,
            chunks: Vec::new(),
            susp: Vec::new(),
            fault_at: None,
            restart: false,
            gates: Vec::new(),
            eof_idle: false,
            cancel_at: None,
            read_takes_first: false,
            restart_bounds: Vec::new(),
        }
    }
    pub fn whole(sink: Sink, len: usize) -> Mode {
        Mode::Run { sink, splits: vec![0, len] }
    }
}

#[derive(Clone, Copy, PartialEq, Eq, Debug)]
pub enum Tok {
    Eof,
    Fault(usize),
    Deadlock,
    /// the library made far more transport calls than the stream can justify
    /// (it loops without consuming input); the link is cut to end the run
    CallBudget,
}

#[derive(Clone, Debug, Default)]
pub struct Out {
    pub events: Vec<Ev>,
    pub polls: u64,
    pub injected: u64,
    pub lib_allocs: u64,
    pub panic: Option<String>,
    /// the task returned `Pending` without having arranged a wake-up
    pub pending_no_wake: bool,
    /// poll budget exhausted
    pub spin: bool,
    /// a `read` was issued with an empty destination
    pub zero_room_read: bool,
    /// run: per call, is the returned slice a suffix of the slice handed in
    /// (by value and, when non-empty, by address)
    pub not_suffix: bool,
    /// run: offset (within each call's slice) where the returned remainder starts
    pub remainders: Vec<usize>,
    /// run with heapless / std sinks: bytes found in the sink after each call
    pub sink_bytes: Vec<u8>,
    /// length of `sink_bytes` after each `run` call (per call attribution)
    pub sink_marks: Vec<usize>,
    /// process: what each `process` call returned (None = still pending when
    /// the simulation stopped, Some(Ok) must never happen)
    pub results: Vec<Option<Result<(), Tok>>>,
    pub tcalls: usize,
    /// number of times the driver handed a fresh future to the executor
    pub block_ons: u64,
    pub idle_reached: bool,
    pub unsupported: bool,
}

impl Out {
    /// handler log: (handler id, converted arguments) in call order
    pub fn handlers(&self) -> Vec<(u16, &Vec<crate::world::Arg>)> {
        self.events
            .iter()
            .filter_map(|e| match e {
                Ev::Enter { h, args } => Some((*h, args)),
                _ => None,
            })
            .collect()
    }
    pub fn errors(&self) -> Vec<Error> {
        self.events
            .iter()
            .filter_map(|e| match e {
                Ev::Err(x) => Some(*x),
                _ => None,
            })
            .collect()
    }
    /// response bytes in the order they left the library
    pub fn responses(&self) -> Vec<u8> {
        let mut v = Vec::new();
        for e in &self.events {
            match e {
                Ev::TWrite { data, ok: true } => v.extend_from_slice(data),
                Ev::WWrite(d) => v.extend_from_slice(d),
                _ => {}
            }
        }
        v.extend_from_slice(&self.sink_bytes);
        v
    }
    pub fn crashed(&self) -> bool {
        self.panic.is_some() || self.pending_no_wake || self.spin
    }
}

// ---------------------------------------------------------------- executor

thread_local! {
    static WOKEN: Cell<bool> = const { Cell::new(false) };
    static BLOCK_ONS: Cell<u64> = const { Cell::new(0) };
}

fn waker() -> Waker {
    fn clone(_: *const ()) -> RawWaker {
        RawWaker::new(std::ptr::null(), &VT)
    }
    fn wake(_: *const ()) {
        WOKEN.with(|w| w.set(true));
    }
    fn noop(_: *const ()) {}
    static VT: RawWakerVTable = RawWakerVTable::new(clone, wake, wake, noop);
    unsafe { Waker::from_raw(RawWaker::new(std::ptr::null(), &VT)) }
}

enum Stop<T> {
    Done(T),
    NoWake,
    Budget,
    Idle,
    Cancel,
}

/// Polls `fut` until it completes, the poll budget is used up, the transport
/// reports that it is idle forever, or the cancellation poll is reached.
fn block_on<F: Future>(
    fut: F, w: &World, idle: &Cell<bool>, polls: &mut u64, budget: u64, cancel_at: Option<u64>,
) -> Stop<F::Output> {
    BLOCK_ONS.with(|c| c.set(c.get() + 1));
    let mut fut = pin!(fut);
    let wk = waker();
    let mut cx = Context::from_waker(&wk);
    loop {
        if let Some(c) = cancel_at {
            if *polls >= c {
                return Stop::Cancel;
            }
        }
        if *polls >= budget {
            return Stop::Budget;
        }
        WOKEN.with(|f| f.set(false));
        *polls += 1;
        let r = {
            let _l = Library::enter();
            fut.as_mut().poll(&mut cx)
        };
        match r {
            Poll::Ready(x) => return Stop::Done(x),
            Poll::Pending => {
                if idle.get() {
                    return Stop::Idle;
                }
                if !WOKEN.with(|f| f.get()) {
                    return Stop::NoWake;
                }
            }
        }
        let _ = w;
    }
}

// ---------------------------------------------------------------- transport

pub struct SimTransport<'a> {
    w: Rc<World>,
    ex: &'a Exec,
    pos: usize,
    chunk_pos: usize,
    calls: usize,
    fault_armed: bool,
    written: usize,
    flushed: usize,
    idle: Rc<Cell<bool>>,
    zero_room: bool,
    /// after a reconnect the controller no longer waits for answers lost with the old link
    gates_on: bool,
    over_budget: bool,
}

impl SimTransport<'_> {
    fn fault_here(&mut self) -> Option<Tok> {
        let idx = self.calls;
        self.calls += 1;
        if self.calls > 8 * self.ex.stream.len() + 4 * self.ex.chunks.len() + 256 {
            self.over_budget = true;
            return Some(Tok::CallBudget);
        }
        if self.fault_armed && self.ex.fault_at == Some(idx) {
            self.fault_armed = false;
            Some(Tok::Fault(idx))
        } else {
            None
        }
    }
    fn limit(&self) -> usize {
        let mut lim = self.ex.stream.len();
        if !self.gates_on {
            return lim;
        }
        for &(off, need) in &self.ex.gates {
            if self.flushed < need && off < lim {
                lim = off;
            }
        }
        lim
    }
}

struct Forever<'a>(&'a Cell<bool>);
impl Future for Forever<'_> {
    type Output = ();
    fn poll(self: std::pin::Pin<&mut Self>, _cx: &mut Context<'_>) -> Poll<()> {
        self.0.set(true);
        Poll::Pending
    }
}

impl Adapter for SimTransport<'_> {
    type Error = Tok;

    async fn read(&mut self, dst: &mut [u8]) -> Result<usize, Tok> {
        let room = dst.len();
        if let Some(t) = self.fault_here() {
            self.w.log(Ev::TRead { room, got: 0, ok: false });
            return Err(t);
        }
        if !self.ex.read_takes_first {
            self.w.suspend_point().await;
        }
        let _g = Harness::enter();
        if room == 0 {
            self.zero_room = true;
        }
        if self.pos >= self.ex.stream.len() {
            if self.ex.eof_idle {
                drop(_g);
                Forever(&self.idle).await;
            }
            self.w.log(Ev::TRead { room, got: 0, ok: false });
            return Err(Tok::Eof);
        }
        let lim = self.limit();
        if lim <= self.pos {
            // the controller is waiting for an answer that was never flushed
            self.w.log(Ev::TRead { room, got: 0, ok: false });
            return Err(Tok::Deadlock);
        }
        let want = self.ex.chunks.get(self.chunk_pos).copied().unwrap_or(u32::MAX) as usize;
        self.chunk_pos += 1;
        let n = want.min(room).min(lim - self.pos);
        dst[..n].copy_from_slice(&self.ex.stream[self.pos..self.pos + n]);
        self.pos += n;
        self.w.log(Ev::TRead { room, got: n, ok: true });
        if self.ex.read_takes_first {
            // the bytes are off the link; only now does the future suspend
            drop(_g);
            self.w.suspend_point().await;
        }
        Ok(n)
    }

    async fn write(&mut self, src: &[u8]) -> Result<(), Tok> {
        if let Some(t) = self.fault_here() {
            let _g = Harness::enter();
            self.w.log(Ev::TWrite { data: src.to_vec(), ok: false });
            return Err(t);
        }
        self.w.suspend_point().await;
        let _g = Harness::enter();
        self.written += src.len();
        self.w.log(Ev::TWrite { data: src.to_vec(), ok: true });
        Ok(())
    }

    async fn flush(&mut self) -> Result<(), Tok> {
        if let Some(t) = self.fault_here() {
            self.w.log(Ev::TFlush { ok: false });
            return Err(t);
        }
        self.w.suspend_point().await;
        self.flushed = self.written;
        self.w.log(Ev::TFlush { ok: true });
        Ok(())
    }
}

// ---------------------------------------------------------------- writer

pub struct SimWriter {
    w: Rc<World>,
    cap: Option<usize>,
    len: usize,
}

impl SimWriter {
    async fn put(&mut self, bytes: &[u8]) -> Result<(), Error> {
        self.w.suspend_point().await;
        let _g = Harness::enter();
        if let Some(c) = self.cap {
            if self.len + bytes.len() > c {
                self.w.log(Ev::WFail);
                return Err(Error::TooMuchData);
            }
        }
        self.len += bytes.len();
        self.w.log(Ev::WWrite(bytes.to_vec()));
        Ok(())
    }
}

impl Write for SimWriter {
    async fn write_bytes(&mut self, bytes: &[u8]) -> Result<(), Error> {
        self.put(bytes).await
    }
    async fn write_char(&mut self, c: char) -> Result<(), Error> {
        let b = {
            let _g = Harness::enter();
            let mut s = [0u8; 4];
            c.encode_utf8(&mut s).as_bytes().to_vec()
        };
        self.put(&b).await
    }
    async fn write_str(&mut self, s: &str) -> Result<(), Error> {
        self.put(s.as_bytes()).await
    }
    async fn write_fmt(&mut self, fmt: core::fmt::Arguments<'_>) -> Result<(), Error> {
        let b = {
            let _g = Harness::enter();
            std::fmt::format(fmt).into_bytes()
        };
        self.put(&b).await
    }
    async fn flush(&mut self) -> Result<(), Error> {
        self.w.suspend_point().await;
        self.w.log(Ev::WFlush);
        Ok(())
    }
}

// ---------------------------------------------------------------- drivers

fn poll_budget(ex: &Exec) -> u64 {
    let s: u64 = ex.susp.iter().map(|&x| x as u64).sum();
    s + 8
}

async fn run_calls<I: SimIface, W: Write>(
    iface: &mut I, w: &Rc<World>, stream: &[u8], splits: &[usize], sink: &mut W, out: &RunSide,
    after: impl Fn(&mut W, &RunSide),
) {
    for (k, win) in splits.windows(2).enumerate() {
        let (a, b) = (win[0].min(stream.len()), win[1].min(stream.len()));
        if a > b {
            continue;
        }
        w.log(Ev::Call(k as u32));
        let input = &stream[a..b];
        let rem = iface.run(input, sink).await;
        let _g = Harness::enter();
        // suffix check: by value always, by address when non-empty
        let ok_val = rem.len() <= input.len() && input[input.len() - rem.len()..] == *rem;
        let ok_ptr = rem.is_empty()
            || (rem.as_ptr() as usize + rem.len() == input.as_ptr() as usize + input.len());
        if !(ok_val && ok_ptr) {
            out.not_suffix.set(true);
        }
        out.remainders.borrow_mut().push(input.len() - rem.len().min(input.len()));
        after(sink, out);
    }
}

#[derive(Default)]
struct RunSide {
    not_suffix: Cell<bool>,
    remainders: std::cell::RefCell<Vec<usize>>,
    sink_bytes: std::cell::RefCell<Vec<u8>>,
    sink_marks: std::cell::RefCell<Vec<usize>>,
}

pub fn drive<I: SimIface, const N: usize>(ex: &Exec) -> Out {
    alloc::reset_counters();
    BLOCK_ONS.with(|c| c.set(0));
    let w = World::new(ex.susp.clone());
    let idle = Rc::new(Cell::new(false));
    let mut out = Out::default();
    let mut polls = 0u64;
    let budget = poll_budget(ex);

    let res = catch_unwind(AssertUnwindSafe(|| {
        let mut iface = I::new(w.clone());
        match &ex.mode {
            Mode::Run { sink, splits } => {
                let side = RunSide::default();
                let stop = match sink {
                    Sink::Sim(cap) => {
                        let mut wr = SimWriter { w: w.clone(), cap: *cap, len: 0 };
                        let f = run_calls(&mut iface, &w, &ex.stream, splits, &mut wr, &side, |_, _| {});
                        block_on(f, &w, &idle, &mut polls, budget, None)
                    }
                    Sink::HeaplessN => {
                        let mut wr = heapless::Vec::<u8, N>::new();
                        let f = run_calls(&mut iface, &w, &ex.stream, splits, &mut wr, &side, |s, o| {
                            o.sink_bytes.borrow_mut().extend_from_slice(s);
                            o.sink_marks.borrow_mut().push(o.sink_bytes.borrow().len());
                            s.clear();
                        });
                        block_on(f, &w, &idle, &mut polls, budget, None)
                    }
                    Sink::Heapless4096 => {
                        let mut wr = heapless::Vec::<u8, 4096>::new();
                        let f = run_calls(&mut iface, &w, &ex.stream, splits, &mut wr, &side, |s, o| {
                            o.sink_bytes.borrow_mut().extend_from_slice(s);
                            o.sink_marks.borrow_mut().push(o.sink_bytes.borrow().len());
                            s.clear();
                        });
                        block_on(f, &w, &idle, &mut polls, budget, None)
                    }
                    Sink::Heapless0 => {
                        let mut wr = heapless::Vec::<u8, 0>::new();
                        let f = run_calls(&mut iface, &w, &ex.stream, splits, &mut wr, &side, |_, _| {});
                        block_on(f, &w, &idle, &mut polls, budget, None)
                    }
                    #[cfg(feature = "std")]
                    Sink::StdVec => {
                        let mut wr: Vec<u8> = Vec::new();
                        let f = run_calls(&mut iface, &w, &ex.stream, splits, &mut wr, &side, |s, o| {
                            o.sink_bytes.borrow_mut().extend_from_slice(s);
                            o.sink_marks.borrow_mut().push(o.sink_bytes.borrow().len());
                            s.clear();
                        });
                        block_on(f, &w, &idle, &mut polls, budget, None)
                    }
                    #[cfg(not(feature = "std"))]
                    Sink::StdVec => {
                        out.unsupported = true;
                        Stop::Done(())
                    }
                };
                match stop {
                    Stop::Done(()) => {}
                    Stop::NoWake => out.pending_no_wake = true,
                    Stop::Budget => out.spin = true,
                    Stop::Idle | Stop::Cancel => {}
                }
                out.not_suffix = side.not_suffix.get();
                out.remainders = side.remainders.take();
                out.sink_bytes = side.sink_bytes.take();
                out.sink_marks = side.sink_marks.take();
            }
            Mode::Process => {
                let mut tr = SimTransport {
                    w: w.clone(),
                    ex,
                    pos: 0,
                    chunk_pos: 0,
                    calls: 0,
                    fault_armed: true,
                    written: 0,
                    flushed: 0,
                    idle: idle.clone(),
                    zero_room: false,
                    gates_on: true,
                    over_budget: false,
                };
                let mut cancel = ex.cancel_at;
                let mut call_no = 0u32;
                loop {
                    w.log(Ev::Call(call_no));
                    call_no += 1;
                    let stop = {
                        let f = iface.process::<N, _>(&mut tr);
                        block_on(f, &w, &idle, &mut polls, budget + ex.chunks.len() as u64, cancel)
                    };
                    match stop {
                        Stop::Done(r) => {
                            out.results.push(Some(r));
                            match r {
                                Err(Tok::Fault(_)) if ex.restart && call_no < 4 => {
                                    if let Some(&b) = ex.restart_bounds.iter().find(|&&b| b >= tr.pos) {
                                        tr.pos = b;
                                    }
                                    tr.gates_on = false;
                                    continue;
                                }
                                _ => break,
                            }
                        }
                        Stop::Cancel => {
                            out.results.push(None);
                            cancel = None;
                            continue;
                        }
                        Stop::NoWake => {
                            out.results.push(None);
                            out.pending_no_wake = true;
                            break;
                        }
                        Stop::Budget => {
                            out.results.push(None);
                            out.spin = true;
                            break;
                        }
                        Stop::Idle => {
                            out.results.push(None);
                            out.idle_reached = true;
                            break;
                        }
                    }
                }
                out.tcalls = tr.calls;
                out.zero_room_read = tr.zero_room;
                if tr.over_budget {
                    out.spin = true;
                }
            }
        }
    }));
    if let Err(p) = res {
        let msg = if let Some(s) = p.downcast_ref::<&str>() {
            s.to_string()
        } else if let Some(s) = p.downcast_ref::<String>() {
            s.clone()
        } else {
            "panic".to_string()
        };
        let loc = crate::take_panic_location();
        out.panic = Some(format!("{msg} @ {loc}"));
    }
    out.polls = polls;
    out.block_ons = BLOCK_ONS.with(|c| c.get());
    out.injected = w.injected.get();
    out.lib_allocs = alloc::lib_allocs().0;
    out.events = w.take_events();
    out
}


/// Polls a future that never suspends (library code writing into a memory
/// buffer) to completion; None if it returned Pending.
pub fn now_or_never<F: Future>(fut: F) -> Option<F::Output> {
    let mut fut = pin!(fut);
    let wk = waker();
    let mut cx = Context::from_waker(&wk);
    match fut.as_mut().poll(&mut cx) {
        Poll::Ready(x) => Some(x),
        Poll::Pending => None,
    }
}
