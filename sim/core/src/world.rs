//! Shared world of one simulated execution: the global event log (its index
//! is the global event sequence number), the suspension tape, and the
//! recording seams that live inside the interface object (handlers' log,
//! error sink, error queue).
use std::cell::{Cell, RefCell};
use std::future::Future;
use std::pin::Pin;
use std::rc::Rc;
use std::task::{Context, Poll};

use microscpi::{Error, ErrorQueue, Interface, StaticErrorQueue};

use crate::alloc::Harness;

pub const IDN: &str = "SIM,MICROSCPI,0,1.0";
pub static TEXTS: [&str; 6] = [
    "Custom error A",
    "Device-specific fault",
    "Overrange, channel 2",
    "x",
    "relay \"K1\" stuck",
    // longer than 255 bytes, with a two-byte character straddling byte 255
    "calibration record rejected: checksum mismatch in segment 0000000000000000000000000000000000000000000000000000000000000000000000000000000000000000000000000000000000000000000000000000000000000000000000000000000000000000000000000000000000000000000000000000000000000000000000000000\u{00e9}\u{00e9}\u{00e9} of 12",
];

/// Error returned by FAIL handlers: `Custom(code, text)`, text chosen by code.
pub fn custom_error(code: i16) -> Error {
    // a few codes make the handler return one of the library's own (standard) errors
    match code {
        -113 => Error::UndefinedHeader,
        -200 => Error::ExecutionError,
        -220 => Error::ParameterError,
        -221 => Error::SettingsConflict,
        -222 => Error::DataOutOfRange,
        -224 => Error::IllegalParameterValue,
        -240 => Error::HardwareError,
        -400 => Error::QueryError,
        // number 0 with an empty description: indistinguishable from "no error" in the
        // answer, but it is an error that occurred and must be stored like any other
        0 => Error::Custom(0, ""),
        _ => Error::Custom(code, TEXTS[(code as u16 % 6) as usize]),
    }
}

/// SCPI-1999 / IEEE 488.2 text of the standard errors that the workloads can put into
/// the queue (number, description); used by the C09 oracle as an independent table.
pub const STANDARD_TEXT: [(i16, &str); 19] = [
    (-100, "Command error"),
    (-101, "Invalid character"),
    (-103, "Invalid separator"),
    (-104, "Data type error"),
    (-111, "Header separator error"),
    (-113, "Undefined header"),
    (-115, "Unexpected number of parameters"),
    (-120, "Numeric data error"),
    (-121, "Invalid character in number"),
    (-200, "Execution error"),
    (-220, "Parameter error"),
    (-221, "Settings conflict"),
    (-222, "Data out of range"),
    (-223, "Too much data"),
    (-224, "Illegal parameter value"),
    (-240, "Hardware error"),
    (-310, "System error"),
    (-350, "Queue overflow"),
    (-400, "Query error"),
];

/// Error *value* returned (as a response) by ZOO:ERR?
pub fn error_value(code: i16) -> Error {
    match code {
        -100 => Error::CommandError,
        -113 => Error::UndefinedHeader,
        -222 => Error::DataOutOfRange,
        -350 => Error::QueueOverflow,
        -400 => Error::QueryError,
        c => custom_error(c),
    }
}

#[derive(Clone, Debug, PartialEq)]
pub enum Arg {
    U(u64),
    I(i64),
    F32(u32),
    F64(u64),
    B(bool),
    S(Vec<u8>),
    Blk(Vec<u8>),
}

#[derive(Clone, Debug, PartialEq)]
pub enum Ev {
    /// handler entered with these converted arguments
    Enter { h: u16, args: Vec<Arg> },
    /// handler returned Ok / Err
    Exit { h: u16, ok: bool },
    /// an error was handed to the error handler (or pushed to the queue)
    Err(Error),
    QPop(Option<Error>),
    QCount(usize),
    /// transport seam
    TRead { room: usize, got: usize, ok: bool },
    TWrite { data: Vec<u8>, ok: bool },
    TFlush { ok: bool },
    /// writer seam (response sink handed to `run`)
    WWrite(Vec<u8>),
    WFail,
    WFlush,
    /// marks the start of a `run` call / `process` call made by the driver
    Call(u32),
}

pub struct World {
    pub ev: RefCell<Vec<Ev>>,
    susp: RefCell<Vec<u8>>,
    susp_pos: Cell<usize>,
    /// number of `Pending` results injected by harness seams
    pub injected: Cell<u64>,
}

impl World {
    pub fn new(susp: Vec<u8>) -> Rc<World> {
        Rc::new(World {
            ev: RefCell::new(Vec::with_capacity(64)),
            susp: RefCell::new(susp),
            susp_pos: Cell::new(0),
            injected: Cell::new(0),
        })
    }
    #[inline]
    pub fn log(&self, e: Ev) {
        let _g = Harness::enter();
        self.ev.borrow_mut().push(e);
    }
    pub fn seq(&self) -> usize {
        self.ev.borrow().len()
    }
    pub fn enter(&self, h: u16, args: Vec<Arg>) {
        self.log(Ev::Enter { h, args });
    }
    pub fn exit(&self, h: u16, ok: bool) {
        self.log(Ev::Exit { h, ok });
    }
    pub fn on_error(&self, e: Error) {
        self.log(Ev::Err(e));
    }
    /// Next entry of the suspension tape (0 when exhausted).
    pub fn suspend_point(&self) -> Suspend<'_> {
        let i = self.susp_pos.get();
        self.susp_pos.set(i + 1);
        let left = self.susp.borrow().get(i).copied().unwrap_or(0);
        Suspend { w: self, left }
    }
    pub fn susp_used(&self) -> usize {
        self.susp_pos.get()
    }
    pub fn take_events(&self) -> Vec<Ev> {
        std::mem::take(&mut *self.ev.borrow_mut())
    }
}

/// Future that returns `Pending` `left` times, waking itself each time.
pub struct Suspend<'a> {
    w: &'a World,
    left: u8,
}
impl Future for Suspend<'_> {
    type Output = ();
    fn poll(mut self: Pin<&mut Self>, cx: &mut Context<'_>) -> Poll<()> {
        if self.left > 0 {
            self.left -= 1;
            self.w.injected.set(self.w.injected.get() + 1);
            cx.waker().wake_by_ref();
            Poll::Pending
        } else {
            Poll::Ready(())
        }
    }
}

pub trait SimIface: Interface + Sized {
    fn new(w: Rc<World>) -> Self;
}

/// Error queue seam: logs every operation, delegates to the real queue.
pub struct RecQueue<const CAP: usize> {
    w: Option<Rc<World>>,
    pub inner: StaticErrorQueue<CAP>,
}
impl<const CAP: usize> RecQueue<CAP> {
    pub fn new(w: Rc<World>) -> Self {
        RecQueue { w: Some(w), inner: StaticErrorQueue::new() }
    }
}
impl<const CAP: usize> Default for RecQueue<CAP> {
    fn default() -> Self {
        RecQueue { w: None, inner: StaticErrorQueue::new() }
    }
}
impl<const CAP: usize> ErrorQueue for RecQueue<CAP> {
    fn error_count(&self) -> usize {
        let n = self.inner.error_count();
        if let Some(w) = &self.w {
            w.log(Ev::QCount(n));
        }
        n
    }
    fn push_error(&mut self, error: Error) {
        if let Some(w) = &self.w {
            w.log(Ev::Err(error));
        }
        self.inner.push_error(error);
    }
    fn pop_error(&mut self) -> Option<Error> {
        let e = self.inner.pop_error();
        if let Some(w) = &self.w {
            w.log(Ev::QPop(e));
        }
        e
    }
}
