//! Simulator core: allocator seam, PRNG, world/event log, executor and I/O
//! seams, spec tables.  Generic over the interface under simulation; the
//! unit crates instantiate `exec::drive` for the generated interfaces.
#![allow(async_fn_in_trait)]
pub mod alloc;
pub mod exec;
pub mod rng;
pub mod spec;
pub mod world;

use std::cell::RefCell;

thread_local! { static PANIC_LOC: RefCell<String> = const { RefCell::new(String::new()) }; }

pub fn take_panic_location() -> String {
    PANIC_LOC.with(|l| std::mem::take(&mut *l.borrow_mut()))
}

/// Quiet panic hook: remembers the location, prints nothing.
pub fn install_panic_hook() {
    std::panic::set_hook(Box::new(|info| {
        let _g = alloc::Harness::enter();
        let loc = info.location().map(|l| format!("{}:{}", l.file(), l.line())).unwrap_or_default();
        PANIC_LOC.with(|l| *l.borrow_mut() = loc);
    }));
}
