//! splitmix64 for seed derivation, xoshiro256** for generation.  No other
//! source of randomness exists in the simulator.
#[inline]
pub fn splitmix(x: u64) -> u64 {
    let mut z = x.wrapping_add(0x9E3779B97F4A7C15);
    z = (z ^ (z >> 30)).wrapping_mul(0xBF58476D1CE4E5B9);
    z = (z ^ (z >> 27)).wrapping_mul(0x94D049BB133111EB);
    z ^ (z >> 31)
}

/// seed of scenario `i` of a batch
pub fn derive(seed: u64, i: u64) -> u64 {
    splitmix(splitmix(seed) ^ splitmix(i.wrapping_mul(0xD1342543DE82EF95).wrapping_add(1)))
}

#[derive(Clone)]
pub struct Rng {
    s: [u64; 4],
}

impl Rng {
    pub fn new(seed: u64) -> Rng {
        let mut x = seed;
        let mut s = [0u64; 4];
        for v in s.iter_mut() {
            x = x.wrapping_add(0x9E3779B97F4A7C15);
            *v = splitmix(x);
        }
        Rng { s }
    }
    #[inline]
    pub fn next(&mut self) -> u64 {
        let r = self.s[1].wrapping_mul(5).rotate_left(7).wrapping_mul(9);
        let t = self.s[1] << 17;
        self.s[2] ^= self.s[0];
        self.s[3] ^= self.s[1];
        self.s[1] ^= self.s[2];
        self.s[0] ^= self.s[3];
        self.s[2] ^= t;
        self.s[3] = self.s[3].rotate_left(45);
        r
    }
    /// uniform in 0..n (n > 0)
    #[inline]
    pub fn below(&mut self, n: usize) -> usize {
        debug_assert!(n > 0);
        ((self.next() >> 11) % n as u64) as usize
    }
    /// inclusive range
    #[inline]
    pub fn range(&mut self, lo: usize, hi: usize) -> usize {
        lo + self.below(hi - lo + 1)
    }
    #[inline]
    pub fn chance(&mut self, num: u64, den: u64) -> bool {
        (self.next() >> 11) % den < num
    }
    pub fn pick<'a, T>(&mut self, xs: &'a [T]) -> &'a T {
        &xs[self.below(xs.len())]
    }
    pub fn byte(&mut self) -> u8 {
        (self.next() >> 24) as u8
    }
}

/// FNV-1a style 64 bit hasher for signatures (deterministic, no std RandomState)
#[derive(Clone, Copy)]
pub struct Fnv(pub u64);
impl Fnv {
    pub fn new() -> Fnv {
        Fnv(0xcbf29ce484222325)
    }
    #[inline]
    pub fn u8(&mut self, b: u8) {
        self.0 ^= b as u64;
        self.0 = self.0.wrapping_mul(0x100000001b3);
    }
    #[inline]
    pub fn u64(&mut self, v: u64) {
        for b in v.to_le_bytes() {
            self.u8(b);
        }
    }
    pub fn bytes(&mut self, bs: &[u8]) {
        self.u64(bs.len() as u64);
        for &b in bs {
            self.u8(b);
        }
    }
    pub fn finish(self) -> u64 {
        splitmix(self.0)
    }
}
