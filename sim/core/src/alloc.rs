//! Allocator seam (C13).  Every allocation attempted while control is inside
//! library code (between the executor's `poll` and a harness seam) is counted.
//! Harness seams bracket themselves with [`Harness::enter`].
use std::alloc::{GlobalAlloc, Layout, System};
use std::cell::Cell;

thread_local! {
    static IN_LIB: Cell<bool> = const { Cell::new(false) };
    static LIB_ALLOCS: Cell<u64> = const { Cell::new(0) };
    static LIB_ALLOC_BYTES: Cell<u64> = const { Cell::new(0) };
}

pub struct CountingAlloc;

#[inline]
fn note(size: usize) {
    // try_with: TLS may be gone during thread teardown
    let _ = IN_LIB.try_with(|f| {
        if f.get() {
            let _ = LIB_ALLOCS.try_with(|c| c.set(c.get() + 1));
            let _ = LIB_ALLOC_BYTES.try_with(|c| c.set(c.get() + size as u64));
        }
    });
}

unsafe impl GlobalAlloc for CountingAlloc {
    unsafe fn alloc(&self, l: Layout) -> *mut u8 {
        note(l.size());
        System.alloc(l)
    }
    unsafe fn alloc_zeroed(&self, l: Layout) -> *mut u8 {
        note(l.size());
        System.alloc_zeroed(l)
    }
    unsafe fn realloc(&self, p: *mut u8, l: Layout, n: usize) -> *mut u8 {
        note(n);
        System.realloc(p, l, n)
    }
    unsafe fn dealloc(&self, p: *mut u8, l: Layout) {
        System.dealloc(p, l)
    }
}

/// RAII: marks "control is in harness code" for its lifetime.
pub struct Harness(bool);
impl Harness {
    #[inline]
    pub fn enter() -> Harness {
        Harness(IN_LIB.with(|f| f.replace(false)))
    }
}
impl Drop for Harness {
    #[inline]
    fn drop(&mut self) {
        IN_LIB.with(|f| f.set(self.0));
    }
}

/// RAII used by the executor around `poll`: marks "control is in library code".
pub struct Library(bool);
impl Library {
    #[inline]
    pub fn enter() -> Library {
        Library(IN_LIB.with(|f| f.replace(true)))
    }
}
impl Drop for Library {
    #[inline]
    fn drop(&mut self) {
        IN_LIB.with(|f| f.set(self.0));
    }
}

pub fn reset_counters() {
    LIB_ALLOCS.with(|c| c.set(0));
    LIB_ALLOC_BYTES.with(|c| c.set(0));
    IN_LIB.with(|c| c.set(false));
}
pub fn lib_allocs() -> (u64, u64) {
    (LIB_ALLOCS.with(|c| c.get()), LIB_ALLOC_BYTES.with(|c| c.get()))
}
