fn main() {
    println!("cargo:rerun-if-changed=build.rs");
    let dir = std::env::var("OUT_DIR").unwrap();
    std::fs::write(format!("{dir}/dispatch.rs"), ifgen::emit_dispatch()).unwrap();
}
