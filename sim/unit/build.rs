// shared by all unit crates: emits the interface this unit instantiates
fn main() {
    let pkg = std::env::var("CARGO_PKG_NAME").unwrap();
    let seed = ifgen::tree_seed();
    let dir = std::env::var("OUT_DIR").unwrap();
    std::fs::write(format!("{dir}/unit.rs"), ifgen::emit_unit(&pkg, seed)).unwrap();
}
