//! One compilation unit of the interface menu (see ifgen::units).
include!(concat!(env!("OUT_DIR"), "/unit.rs"));
