#!/usr/bin/env python3
"""Prints the markdown table of DESIGN.md section 12 from mutants/RESULTS-quick.tsv."""
import csv, json, sys
rows = list(csv.reader(open('/verif/mutants/RESULTS-quick.tsv'), delimiter='\t'))
hdr = rows[0]
ids = hdr[3:]
def fired(r):
    return [ids[i] for i in range(len(ids)) if len(r) > 3 + i and r[3 + i].startswith('VIOLATION')]
def cls(r, pid):
    i = ids.index(pid)
    c = r[3 + i]
    return c[len('VIOLATION('):-1] if c.startswith('VIOLATION(') else ''
groups = [('reverts of the nine fix commits', lambda n: n.startswith('revert-')),
          ('own property-breaking mutants', lambda n: not n.startswith(('revert-', 'benign-', 'seeded/', 'BASELINE'))),
          ('changes written by independent sub-agents (seeded/)', lambda n: n.startswith('seeded/')),
          ('benign changes and the unmodified tree (no check may fire)', lambda n: n.startswith('benign-') or n == 'BASELINE')]
for title, pred in groups:
    print(f"\n**{title}**\n")
    print("| change | aimed at | suite | fires (class of the aimed-at check) | also fires |")
    print("|---|---|---|---|---|")
    for r in rows[1:]:
        if not pred(r[0]) or len(r) < 4:
            continue
        exp = [e for e in r[1].split(',') if e and e != '-']
        f = fired(r)
        main = [f"{e} `{cls(r, e)}`" for e in exp if e in f]
        missed = [e for e in exp if e not in f]
        other = [x for x in f if x not in exp]
        cell = ', '.join(main) if main else ('—' if not exp else '')
        if missed:
            cell += (' ' if cell else '') + '**MISSED: ' + ','.join(missed) + '**'
        print(f"| {r[0].replace('seeded/', '')} | {','.join(exp) or '—'} | {r[2]} | {cell} | {', '.join(other) or '—'} |")
