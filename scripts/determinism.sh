#!/bin/bash
# Determinism self test: for every claimed property, the digest over all
# verdicts, counters, scenario signatures and abstract states of the first
# COUNT scenarios must be identical across separate processes and across
# worker counts (1, 4, 16), and for a second VERIF_SEED likewise.
#   scripts/determinism.sh [COUNT]
set -u
VERIF="$(cd "$(dirname "$0")/.." && pwd)"
COUNT="${1:-20000}"
"$VERIF/check" --build-only >/dev/null || exit 2
fail=0
for seed in 20260926 7; do
  for id in C02 C04 C05 C06 C07 C08 C09 C10 C13; do
    bin="$VERIF/sim/bin/simctl-nostd"; [ "$id" = C04 ] && bin="$VERIF/sim/bin/simctl-std"
    ref=""
    for w in 1 4 16 16; do
      d=$(VERIF_SEED=$seed "$bin" digest "$id" --count "$COUNT" --workers "$w" | sed 's/.* = //')
      if [ -z "$ref" ]; then ref="$d"; fi
      if [ "$d" != "$ref" ]; then echo "NONDETERMINISM $id seed=$seed workers=$w: $d vs $ref"; fail=1; fi
    done
    echo "$id seed=$seed count=$COUNT digest=$ref (identical for workers 1,4,16,16)"
  done
done
exit $fail
