#!/usr/bin/env python3
"""Writes /verif/seeded/<id>/meta.json from the hand-written descriptions below and
the measured results in mutants/RESULTS-quick.tsv (which checks fire on the change)."""
import json, os, csv

V = "/verif"
DESC = {
 "C02-a": ("C02", "process declares the carried header path inside its per-read loop, so the path is reset at every read",
           "a compound message through process whose relative unit has a newline inside a block/string payload, with a read boundary behind that newline"),
 "C02-b": ("C02", "run_from updates/resets the header path only when the unit executed successfully",
           "a unit that fails during execution (handler error, wrong arity ...) after which a relative unit or the next message is resolved from the stale path"),
 "C04-a": ("C04", "digit count of the definite-length block header is one too small when the length divides down to exactly 10",
           "an Arbitrary response of 10, 100..109, 1000..1099 bytes"),
 "C04-b": ("C04", "quoted strings are written char by char through write_char, which truncates non-ASCII characters",
           "a string response containing both a double quote and a non-ASCII character, written through heapless::Vec or std Vec"),
 "C05-a": ("C05", "process sets read_offset back in front of the newline after an incomplete unit and spins forever inside one poll",
           "a newline inside a string or block payload streamed through process"),
 "C05-b": ("C05", "completeness guard of arbitrary_program_data compares the wrong slice; split_at panics",
           "a block whose available data is short by 1..n bytes (n = number of length digits) at the end of the slice handed to the parser"),
 "C06-a": ("C06", "header path bookkeeping moved into the Ok arm of execute",
           "an execution-time fault in a compound message followed by a relative unit or by another message in the same buffer"),
 "C06-b": ("C06", "terminator search after a parse error toggles one 'quoted' flag for both quote characters",
           "a parse-level fault in a message that contains a closed string with the other quote kind inside (odd number of quotes)"),
 "C07-a": ("C07", "'buffer full, discard' tested before 'shift unprocessed tail' at the end of a read",
           "a read that ends exactly at buffer position N while executed messages and the start of the next one are in the buffer"),
 "C07-b": ("C07", "response buffer handed to the adapter once per read instead of once per message",
           "two or more queries whose terminators arrive in one read and whose combined responses exceed N"),
 "C08-a": ("C08", "run_from writes the tracked header path back only after the loop; the early return on incomplete input loses it",
           "process, newline inside the payload of a relative unit that follows a header-setting unit"),
 "C08-b": ("C08", "offset update after an incomplete unit assigns a data-relative length as an absolute buffer offset",
           "process: units already executed run again when a payload has two newlines in one read, or when a complete earlier message shares the read with a payload newline"),
 "C09-a": ("C09", "overflow marker written through the first slice of the ring buffer (as_mut_slices().0.last_mut())",
           "capacity >= 2, at least one entry read before, queue filled again, one more error"),
 "C09-b": ("C09", "macro-generated dispatcher calls the handler before rejecting surplus parameters",
           "an error query with a surplus parameter (SYST:ERR? 1) on a non-empty queue: an entry is popped and never returned"),
 "C10-a": ("C10", "flush only when the answered message's terminator is the last byte of the read",
           "a query followed by a command (or by the start of the next message) in the same read"),
 "C10-b": ("C10", "process leaves the terminator scan when a unit is incomplete and reads again",
           "a newline inside a payload followed, in the same read, by the real terminator and a query"),
 "C13-a": ("C13", "String::replace (alloc) used to double embedded quotes in string responses",
           "a string response containing a double quote"),
 "C02-c": ("C02", "header walk keeps visited nodes in a bounded vector and 'drops the oldest' with swap_remove(0), so from 10 mnemonics on the returned header path is two levels too high",
           "a declared command at least ten levels deep, followed by ';' and a relative unit"),
 "C04-c": ("C04", "capacity guard of heapless::Vec's write_char is off by one (len + n < N)",
           "responses plus the terminating newline fill the fixed-capacity writer exactly (run into heapless::Vec<u8,N>, or one message answering exactly N bytes under process::<N>)"),
 "C05-c": ("C05", "Node::child folds the name into a 12 byte stack buffer; the 12 character limit for common commands is checked without the '*'",
           "'*' followed by exactly 12 mnemonic characters of which at least one is lower case"),
 "C06-c": ("C06", "parameters beyond the tenth are parsed and silently dropped instead of ending the parse with an error",
           "a command declared with exactly 10 parameters called with 11 or more: handler runs with the first ten, no error"),
 "C07-c": ("C07", "empty reads skipped and the 'buffer full, discard' check only made when the new data holds no terminator",
           "a message larger than N with a newline inside its payload within the first N bytes, and the read that fills the buffer contains that newline: process spins"),
 "C08-c": ("C08", "block length field folded into a u8 accumulator",
           "a definite-length block of 256 bytes or more (panic with overflow checks, truncated payload without)"),
 "C09-c": ("C09", "run_from inspects the result of execute only after an early 'continue' taken by unterminated common commands",
           "an execution-level error of a common command (*RST 1) that is followed by ';': the error never reaches the handler/queue"),
 "C10-c": ("C10", "response written and flushed only if the response buffer is not full",
           "a message whose complete answers total exactly N bytes under process::<N>"),
 "C13-c": ("C13", "Node::child upper-cases names longer than 16 bytes through to_ascii_uppercase() (a Vec)",
           "a declared mnemonic longer than 16 characters and an input mnemonic of exactly that length at the same tree level"),
 "C02-d": ("C02", "the slow path of the header loop (white space next to ':') lost the 'header = node' update",
           "a header with two or more mnemonics whose last ':' has white space next to it (SOUR:VOLT :LEV 1), followed by a relative unit"),
 "C04-d": ("C04", "f32 and f64 formatting folded into one helper that prints with f32 digits whenever the f64 is exactly f32-representable",
           "an f64 response on the f32 grid that needs more than ~7-9 significant digits (2^31, 2^53, 0.1f32 as f64)"),
 "C05-d": ("C05", "hand-written integer formatter computes ilog10 of every nine-digit group, also of all-zero groups",
           "an integer response of at least 10^9 that is a multiple of 10^9, or at least 10^18 with a zero middle group"),
 "C06-d": ("C06", "block length digits accepted with 'digit > RADIX' instead of '>=', so ':' counts as the digit 10",
           "a message with the malformed block header '#1:' - read as a 10 byte block that swallows the terminator and the following messages"),
 "C07-d": ("C07", "run_from returns early when the remaining input is exactly one newline, without resetting the header path",
           "process, a message ending in ';' directly before the newline whose last header has two or more mnemonics, then a message with a relative header"),
 "C08-d": ("C08", "closing quote searched with text.find(|c: char| c as u8 == quote): the truncating cast matches code points whose low byte is the quote",
           "a string payload containing e.g. U+2122 or U+0122 inside double quotes, U+0127 or U+2227 inside single quotes"),
 "C09-d": ("C09", "overflow marker not written when the OLDEST entry already is the marker (front() where back() was meant)",
           "overflow, read exactly capacity-1 entries so that the marker is the oldest entry, refill, one more error"),
 "C10-d": ("C10", "single-exit refactor of process: the offset-update arm for an incomplete unit never looks at the stored write/flush result",
           "a query before a unit with a newline in its payload, a write or flush error on that early answer, the rest of the message in the same read and another query before the terminator"),
 "C13-d": ("C13", "execute awaits the generated execute_command future through Box::pin when it is larger than 4 KiB (alloc gated on panic=unwind)",
           "an interface with a handler whose future exceeds 4 KiB; allocator-less panic=abort binaries still link"),
 "C02-e": ("C02", "proc-macro shares one tree node between all spellings of a command part, so children of differently-prefixed commands are merged",
           "a tree with two optional subsystems that have a same-named child ([SENSe]:FREQuency:RANGe, [SOURce]:FREQuency:CW) and the undeclared combination SENS:FREQ:CW (accepted in absolute and relative form alike; header matching itself is C01's subject, the C06 check sees it as an undefined header that is not reported)"),
 "C04-e": ("C04", "process keeps answers parked in its response buffer while a message is continued after a newline inside a payload, and clears the buffer on input overflow",
           "a query answered early in a compound message whose later unit has a payload newline and whose tail overflows the N byte input buffer: the answer is never sent"),
 "C06-e": ("C06", "shared helper for #H/#B/#Q returns Incomplete when fewer than two bytes follow the prefix",
           "a faulty message ending in a bare #H, #B or #Q directly before the terminator is judged 'continued' and not reported"),
 "C07-e": ("C07", "compaction rewinds the buffer instead of shifting when the unprocessed tail is only white space",
           "a message with leading white space whose total length is N+1..N+w+1, and a read boundary exactly between the white space and the rest, in a read that also held the previous terminator"),
 "C08-e": ("C08", "an 'exhausted' flag (incomplete unit ends at the last byte of the buffer) triggers the overflow discard before the shift",
           "a read that fills the buffer exactly, byte N-1 is a newline inside a payload, and something ahead of that unit was consumed in the same read"),
 "C09-e": ("C09", "error descriptions looked up by binary search over a table that is not sorted at -220/-210",
           "a handler returns Error::ParameterError: SYST:ERR? answers -220,\"Execution error\" instead of \"Parameter error\""),
 "C10-e": ("C10", "process sends its response buffer only when a response completed (flush seen) or the buffer is full",
           "a multi-piece answer that overflows N in a middle piece leaves stale bytes that are sent in front of a later answer (N=16, *IDN? then a short query)"),
 "C02-f": ("C02", "parse() shortcut for a unit followed only by white space and then ';' or the terminator returns terminated: true in both cases",
           "a unit without parameters, white space between it and the ';' behind it, and a relative unit after the ';' while the path is not the root"),
 "C04-f": ("C04", "Response for Error formats number and description with one write! instead of through the quoting helper",
           "a query that returns an Error value whose custom description contains a double quote"),
 "C05-f": ("C05", "new exponent range check parses the exponent as i16 and calls abs()",
           "a float argument with an exponent of exactly -32768 (abs overflow panic with overflow checks)"),
 "C06-f": ("C06", "#H/#Q/#B conversions share a helper that limits digits to ceil(64/bits) and folds with unchecked shifts",
           "a 22 digit octal literal with leading digit 2..7 wraps modulo 2^64 and is accepted when the result fits the parameter type: no error, handler runs"),
 "C07-f": ("C07", "word-at-a-time terminator search (big-endian load + leading_zeros) reports a vertical tab directly before the newline as the terminator",
           "a message with a parse error whose last byte before the newline is 0x0B, both in the same 8 byte word of one read: the error is reported twice"),
 "C08-f": ("C08", "process skips newlines that directly follow the one just handled ('blank line' fast path), also when that one was inside a payload",
           "a block whose last payload byte is a newline, the terminator directly behind it, both in one read: the message stays pending until a later newline"),
 "C09-f": ("C09", "the empty answer comes from a constant Custom(0, \"\") and the blanket ErrorHandler does not store an error equal to it",
           "a handler-raised Custom(0, \"\"): COUNt? is one short, the entry is missing, no -350 when it arrives at a full queue"),
 "C13-f": ("C13", "white space accepted around the exponent marker; float conversion re-assembles such literals in a 32 byte stack buffer and falls back to a String beyond that (alloc gated on panic=unwind)",
           "an f32/f64 argument with an exponent, a blank next to the E and at least 33 characters without blanks"),
 "C13-b": ("C13", "String::from_utf8_lossy in the quoted-string recogniser",
           "a closed quoted string containing invalid UTF-8"),
}

def main():
    rows = {}
    p = os.path.join(V, "mutants", "RESULTS-quick.tsv")
    if os.path.exists(p):
        r = list(csv.reader(open(p), delimiter="\t"))
        hdr = r[0]
        for row in r[1:]:
            rows[row[0]] = dict(zip(hdr, row))
    for d in sorted(os.listdir(os.path.join(V, "seeded"))):
        prop, what, needs = DESC.get(d, (d.split("-")[0], "see agent-notes.txt", "see agent-notes.txt"))
        res = rows.get("seeded/" + d, {})
        fired = {k: v for k, v in res.items() if k.startswith("C") and v.startswith("VIOLATION")}
        exp_file = os.path.join(V, "seeded", d, "expected")
        owner = open(exp_file).read().strip() if os.path.exists(exp_file) else prop
        meta = {
            "id": d,
            "property": prop,
            "property_whose_check_must_catch_it": owner,
            "origin": "written by an independent sub-agent that was given only the text of the property and a scratch worktree of /repo",
            "change": what,
            "needs_to_manifest": needs,
            "confirmed": {
                "how": "scripts/verify_seeded.sh patch.diff demo.rs demo_%s (fresh scratch worktree of /repo)" % d.lower().replace("-", "_"),
                "demo_passes_on_unchanged_code": True,
                "suite_passes_with_change": True,
                "demo_fails_with_change": True,
            },
            "checks_run": "scripts/sensitivity.sh (all nine quick checks on a scratch copy; mutants/RESULTS-quick.tsv)",
            "caught_by": sorted(fired.keys()),
            "violation_classes": fired,
            "suite": res.get("suite", "not run yet"),
        }
        json.dump(meta, open(os.path.join(V, "seeded", d, "meta.json"), "w"), indent=1)
        print(d, prop, sorted(fired.keys()))

if __name__ == "__main__":
    main()
