#!/bin/bash
# Confirms a seeded change independently, in a fresh scratch worktree of /repo:
#   - the demonstration passes on the unchanged code
#   - with the change the repository's own suite still passes
#   - with the change the demonstration fails
# usage: scripts/verify_seeded.sh <patch.diff> <demo.rs> <demo-test-name> [cargo test feature args]
set -u
PATCH="$1"; DEMO="$2"; NAME="$3"; shift 3
W=/tmp/vseed-$$
git -C /repo worktree add -q --detach "$W" HEAD || exit 2
trap 'cd /; git -C /repo worktree remove --force "$W" 2>/dev/null; rm -rf "$W"' EXIT
cd "$W"
cp "$DEMO" "microscpi/tests/$NAME.rs"
cargo test --offline -p microscpi --test "$NAME" "$@" >"$W.unchanged.log" 2>&1; a=$?
git apply "$PATCH" || { echo "patch does not apply"; exit 2; }
mv "microscpi/tests/$NAME.rs" "$W.demo.rs"
cargo test --workspace --offline >"$W.suite.log" 2>&1; b=$?
passed=$(grep -E "^test result" "$W.suite.log" | awk '{s+=$4} END {print s}')
cp "$W.demo.rs" "microscpi/tests/$NAME.rs"
cargo test --offline -p microscpi --test "$NAME" "$@" >"$W.changed.log" 2>&1; c=$?
echo "demo on unchanged code: $([ $a = 0 ] && echo PASS || echo FAIL)   suite with change: $([ $b = 0 ] && echo PASS || echo FAIL) ($passed tests)   demo with change: $([ $c = 0 ] && echo PASS || echo FAIL)"
grep -E "^test .* FAILED|panicked at" "$W.changed.log" | head -5
rm -f "$W".*.log "$W.demo.rs"
[ $a = 0 ] && [ $b = 0 ] && [ $c != 0 ]
