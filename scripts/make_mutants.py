#!/usr/bin/env python3
"""Writes /verif/mutants/*.diff: small property-breaking changes to /repo, each
made in a scratch worktree (never in /repo itself).  Every mutant names the
check(s) expected to catch it.  Used by scripts/sensitivity.sh."""
import subprocess, os, sys, json, shutil

REPO = "/repo"
OUT = "/verif/mutants"
WT = "/tmp/mutant-wt"

M = []
def m(name, expect, file, old, new, count=1):
    M.append(dict(name=name, expect=expect, file=file, old=old, new=new, count=count))

I = "microscpi/src/interface.rs"
# --- reverts of fix commits that do not revert cleanly with git
m("revert-25fdc21-terminator_after_semicolon_keeps_path", ["C02"], I,
  """            else {
                // An empty program message unit is ended by a terminator, which
                // resets the header path as well.
                *header = self.root_node();
            }
""", "")
m("revert-3de1cfe-run_returns_at_parse_error", ["C06", "C07"], I,
  """                match input.iter().position(|b| *b == b'\\n') {
                    Some(position) => {
                        input = &input[position + 1..];
                        *header = self.root_node();
                        continue;
                    }
                    None => return input,
                }
""", "                return input;\n")
m("revert-59243e2-overflow_reset_before_compaction", ["C07"], I,
  """            if proc_offset > 0 {
                cmd_buf.copy_within(proc_offset..read_end, 0);
                read_offset -= proc_offset;
                proc_offset = 0;
            }
            // The buffer is full and nothing of it could be processed: discard it.
            else if read_offset >= cmd_buf.len() {
                #[cfg(feature = "defmt")]
                defmt::warn!("SCPI buffer overflow, resetting buffer");
                read_offset = 0;
                header = self.root_node();
            }
""", """            if read_offset >= cmd_buf.len() {
                read_offset = 0;
                proc_offset = 0;
                header = self.root_node();
            }
            else if proc_offset > 0 {
                cmd_buf.copy_within(proc_offset..read_end, 0);
                read_offset -= proc_offset;
                proc_offset = 0;
            }
""")
# --- transport / process
m("flush-error-ignored", ["C10"], I, "                    adapter.flush().await?;", "                    let _ = adapter.flush().await;")
m("flush-omitted", ["C10"], I, "                    adapter.flush().await?;\n", "")
m("write-error-ignored", ["C10"], I, "                    adapter.write(&res_buf).await?;", "                    let _ = adapter.write(&res_buf).await;")
m("response-buffer-not-cleared", ["C10", "C07"], I, "                    res_buf.clear();\n", "")
m("process-returns-ok-on-empty-read", ["C10", "C05", "C07"], I,
  "            let read_end = read_offset + count;\n", "            if count == 0 {\n                return Ok(());\n            }\n            let read_end = read_offset + count;\n")
m("terminator-search-from-back", ["C07", "C10"], I, "                .position(|b| *b == b'\\n')\n            {", "                .rposition(|b| *b == b'\\n')\n            {")
m("compaction-off-by-one", ["C07"], I, "                cmd_buf.copy_within(proc_offset..read_end, 0);", "                cmd_buf.copy_within(proc_offset..read_end.saturating_sub(1).max(proc_offset), 0);")
m("response-written-after-next-read", ["C10"], I,
  """                if !res_buf.is_empty() {
                    adapter.write(&res_buf).await?;
                    adapter.flush().await?;
                    res_buf.clear();
                }
""", """                if res_buf.len() > N / 2 {
                    adapter.write(&res_buf).await?;
                    adapter.flush().await?;
                    res_buf.clear();
                }
""")
m("path-kept-across-messages-in-process", ["C02", "C06"], I,
  "                    // Reset the header to the root node if a call is ended with a terminator.\n                    *header = self.root_node();",
  "                    // Reset the header to the root node if a call is ended with a terminator.\n                    if input.len() == i.len() { *header = self.root_node(); }")
# --- run / execute
m("common-command-resets-path", ["C02"], I,
  """                else if let Some(call_header) = call.header {
                    // Update the current header, if the current command is not a common command.
                    *header = call_header;
                }
""", """                else if let Some(call_header) = call.header {
                    // Update the current header, if the current command is not a common command.
                    *header = call_header;
                }
                else {
                    *header = self.root_node();
                }
""")
m("execution-error-swallowed", ["C06"], I,
  "                    self.handle_error(error);\n                }\n\n                if call.terminated",
  "                    if error != Error::UnexpectedNumberOfParameters { self.handle_error(error); }\n                }\n\n                if call.terminated")
m("execution-error-reported-twice", ["C06"], I,
  "                    self.handle_error(error);\n                }\n\n                if call.terminated",
  "                    self.handle_error(error);\n                    if call.terminated && call.query { self.handle_error(error); }\n                }\n\n                if call.terminated")
m("flush-before-newline", ["C04"], I,
  "                response.write_char('\\n').await?;\n                response.flush().await?;",
  "                response.flush().await?;\n                response.write_char('\\n').await?;")
m("no-flush-after-response", ["C04"], I, "                response.flush().await?;\n", "")
m("output-for-failed-query", ["C04"], I,
  "            self.execute_command(command, &call.args, response).await?;\n",
  "            let r = self.execute_command(command, &call.args, response).await;\n            if r.is_err() && call.query { response.write_char('\\n').await?; }\n            r?;\n")
m("path-after-error-stays-stale", ["C06"], I,
  "                        input = &input[position + 1..];\n                        *header = self.root_node();\n                        continue;",
  "                        input = &input[position + 1..];\n                        continue;")
# --- parser
P = "microscpi/src/parser.rs"
m("colon-does-not-reset-path", ["C02"], P,
  "        let mut node = if root_command.is_some() { root } else { header };",
  "        let mut node = if root_command.is_some() && header.children.is_empty() { root } else { header };")
m("string-stops-at-semicolon", ["C08"], P,
  "    let (i2, res) = take_while(|c| c != b'\"')(i1)?;",
  "    let (i2, res) = take_while(|c| c != b'\"' && c != b';')(i1)?;")
m("block-incomplete-becomes-error", ["C08"], P,
  "    if i3.len() < count {\n        Err(ParseError::Incomplete)",
  "    if i3.len() < count {\n        Err(Error::BlockDataError)?")
m("eleventh-argument-panics", ["C05"], P,
  "            args.push(arg)\n                .or(Err(Error::UnexpectedNumberOfParameters))?;",
  "            args.push(arg).unwrap();")
# --- response
R = "microscpi/src/response.rs"
m("negative-infinity-sign-lost", ["C04"], R,
  "            if self.is_sign_negative() {\n                f.write_str(\"-9.9E+37\").await", "            if self.is_sign_negative() && false {\n                f.write_str(\"-9.9E+37\").await", count=2)
m("empty-block-header-wrong", ["C04"], R, "            f.write_str(\"#10\").await", "            f.write_str(\"#0\").await")
m("tuple-separator-missing-in-4-tuples", ["C04"], R,
  "        self.2.write_response(f).await?;\n        f.write_char(',').await?;\n        self.3.write_response(f).await",
  "        self.2.write_response(f).await?;\n        self.3.write_response(f).await")
# --- error queue
Q = "microscpi/src/error_queue.rs"
m("queue-lifo", ["C09"], Q, "        self.0.pop_front()", "        self.0.pop_back()")
m("queue-overflow-replaces-oldest", ["C09"], Q, "            if let Some(value) = self.0.back_mut() {", "            if let Some(value) = self.0.front_mut() {")
m("queue-overflow-silently-dropped", ["C09"], Q,
  "            if let Some(value) = self.0.back_mut() {\n                *value = Error::QueueOverflow;\n            }", "")
C = "microscpi/src/commands.rs"
m("count-off-by-one-when-full", ["C09"], C,
  "        Ok(self.error_queue().error_count())",
  "        let n = self.error_queue().error_count();\n        Ok(if n > 3 { n - 1 } else { n })")
m("next-does-not-remove-when-last", ["C09"], C,
  "        if let Some(error) = self.error_queue().pop_error() {\n            Ok((error.number(), error.into()))",
  "        if let Some(error) = self.error_queue().pop_error() {\n            if self.error_queue().error_count() == 0 && error.number() == -350 { self.error_queue().push_error(error); }\n            Ok((error.number(), error.into()))")
# --- allocation
m("error-path-allocates", ["C13"], "microscpi/src/lib.rs", "mod commands;\n", "extern crate alloc;\nmod commands;\n", )
M[-1]["extra"] = [(I, "                self.handle_error(error.into());\n", "                let _note = alloc::format!(\"{:?}\", error);\n                self.handle_error(error.into());\n")]

m("queue-handler-drops-undefined-header-errors", ["C09"], C,
  "        self.error_queue().push_error(error);",
  "        if error != Error::UndefinedHeader {\n            self.error_queue().push_error(error);\n        }")
m("queue-handler-pushes-custom-errors-twice", ["C09"], C,
  "        self.error_queue().push_error(error);",
  "        self.error_queue().push_error(error);\n        if let Error::Custom(..) = error {\n            self.error_queue().push_error(error);\n        }")
# --- proc-macro
MAC = "microscpi-macros/src/lib.rs"
m("macro-surplus-arguments-accepted", ["C06"], MAC,
  "                if args.len() != #arg_count {", "                if args.len() < #arg_count {")
m("macro-error-count-and-next-swapped", ["C09"], MAC,
  'handler: CommandHandler::StandardFunction("ErrorCommands::system_error_count"),',
  'handler: CommandHandler::StandardFunction("ErrorCommands::system_error_next"),')
M[-1]["extra"] = [(MAC, 'handler: CommandHandler::StandardFunction("ErrorCommands::system_error_next"),\n            future: false,\n        }));\n\n        commands.push',
                   'handler: CommandHandler::StandardFunction("ErrorCommands::system_error_count"),\n            future: false,\n        }));\n\n        commands.push')]

# --- benign changes: behaviour the properties leave open; NO check may fire on these
m("benign-rest-of-message-skipped-after-execution-error", [], I,
  "                    self.handle_error(error);\n                }\n\n                if call.terminated",
  "                    self.handle_error(error);\n                    if !call.terminated {\n                        if let Some(position) = i.iter().position(|b| *b == b'\\n') {\n                            input = &i[position + 1..];\n                            *header = self.root_node();\n                            continue;\n                        }\n                    }\n                }\n\n                if call.terminated")
m("benign-syntax-errors-reported-as-command-error", [], I,
  "                self.handle_error(error.into());\n\n                // Discard",
  "                let error: Error = error.into();\n                self.handle_error(if error == Error::InvalidCharacter { Error::CommandError } else { error });\n\n                // Discard")
m("benign-f64-in-exponent-notation", [], R,
  "            write!(f, \"{self}\").await\n        }\n    }\n}\n\nimpl<const N: usize> Response for heapless::String<N>",
  "            write!(f, \"{self:e}\").await\n        }\n    }\n}\n\nimpl<const N: usize> Response for heapless::String<N>")
m("benign-reads-of-at-most-16-bytes", [], I,
  "            let count = adapter.read(&mut cmd_buf[read_offset..]).await?;",
  "            let limit = (read_offset + 16).min(cmd_buf.len());\n            let count = adapter.read(&mut cmd_buf[read_offset..limit]).await?;")
m("benign-flush-also-for-silent-messages", [], I,
  "                    res_buf.clear();\n                }\n",
  "                    res_buf.clear();\n                }\n                else {\n                    adapter.flush().await?;\n                }\n")

def sh(*a, **k):
    return subprocess.run(a, check=True, capture_output=True, text=True, **k)

def main():
    os.makedirs(OUT, exist_ok=True)
    if os.path.exists(WT):
        subprocess.run(["git", "-C", REPO, "worktree", "remove", "--force", WT])
    sh("git", "-C", REPO, "worktree", "add", "-q", "--detach", WT, "HEAD")
    index = {}
    try:
        for mu in M:
            edits = [(mu["file"], mu["old"], mu["new"], mu["count"])] + [(f, o, n, 1) for (f, o, n) in mu.get("extra", [])]
            ok = True
            for (f, old, new, count) in edits:
                p = os.path.join(WT, f)
                s = open(p).read()
                if s.count(old) != count:
                    print(f"SKIP {mu['name']}: pattern occurs {s.count(old)} times in {f}, expected {count}")
                    ok = False
                    break
                open(p, "w").write(s.replace(old, new))
            if ok:
                d = sh("git", "-C", WT, "diff").stdout
                open(os.path.join(OUT, mu["name"] + ".diff"), "w").write(d)
                index[mu["name"]] = mu["expect"]
                print("wrote", mu["name"])
            sh("git", "-C", WT, "checkout", "--", ".")
    finally:
        subprocess.run(["git", "-C", REPO, "worktree", "remove", "--force", WT])
    # reverts produced with git revert (see DESIGN 8)
    for f in sorted(os.listdir(OUT)):
        if f.startswith("revert-") and f.endswith(".diff"):
            n = f[:-5]
            index.setdefault(n, {"revert-1cd8753": ["C08"], "revert-3e7cc9f": ["C08"], "revert-4cf48ae": ["C04"], "revert-5145a29": ["C08"], "revert-c146841": ["C05"], "revert-f6e61e6": ["C02"]}.get(n[:14], []))
    json.dump(index, open(os.path.join(OUT, "INDEX.json"), "w"), indent=1, sort_keys=True)

if __name__ == "__main__":
    main()
