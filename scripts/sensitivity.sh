#!/bin/bash
# Sensitivity run: applies each mutant of /verif/mutants (or the ones named) to a
# scratch worktree of /repo, checks that the repository's own test suite still
# passes, runs every quick check of a scratch copy of /verif against it and
# records which checks raise a VIOLATION.  /repo and /verif are not touched.
#   scripts/sensitivity.sh [--tier quick|thorough] [mutant-name ...]
set -u
VERIF="$(cd "$(dirname "$0")/.." && pwd)"
# --shards K: split the default mutant list over K concurrent scratch copies
if [ "${1:-}" = "--shards" ]; then
    K="$2"; shift 2
    TIER_ARGS=""; if [ "${1:-}" = "--tier" ]; then TIER_ARGS="--tier $2"; T="$2"; shift 2; else T=quick; fi
    ALL="BASELINE $(cd "$VERIF/mutants" && ls *.diff | sed 's/\.diff$//') $(ls -d "$VERIF"/seeded/*/ | sed 's|/$||; s|$|/patch.diff|')"
    i=0; pids=""
    for k in $(seq 1 "$K"); do : > "/tmp/sens-shard-$k.list"; done
    for n in $ALL; do k=$(( i % K + 1 )); echo "$n" >> "/tmp/sens-shard-$k.list"; i=$((i+1)); done
    for k in $(seq 1 "$K"); do
        SENS_DIR="/tmp/sens-shard-$k" "$0" $TIER_ARGS $(cat "/tmp/sens-shard-$k.list") > "/tmp/sens-shard-$k.out" 2>&1 &
        pids="$pids $!"
    done
    wait $pids
    OUT="$VERIF/mutants/RESULTS-$T.tsv"
    { head -1 /tmp/sens-shard-1.out; for k in $(seq 1 "$K"); do tail -n +2 "/tmp/sens-shard-$k.out"; done | sort -u; } > "$OUT"
    rm -f /tmp/sens-shard-*.list /tmp/sens-shard-*.out
    cat "$OUT"
    exit 0
fi
S="${SENS_DIR:-/tmp/sens}"
TIER=quick
if [ "${1:-}" = "--tier" ]; then TIER="$2"; shift 2; fi
IDS="C02 C04 C05 C06 C07 C08 C09 C10 C13"
rm -rf "$S"; mkdir -p "$S"
git -C /repo worktree prune
git -C /repo worktree add -q --detach "$S/repo" HEAD || exit 2
rsync -a --exclude target --exclude bin --exclude .git --exclude evidence --exclude replays "$VERIF/" "$S/verif/"
grep -rl '/repo/' "$S/verif/sim" "$S/verif/nostd-link" --include=Cargo.toml | xargs sed -i "s|/repo/|$S/repo/|g"
mkdir -p "$S/verif/evidence" "$S/verif/replays"
cleanup() { cd /; git -C /repo worktree remove --force "$S/repo" 2>/dev/null; rm -rf "$S"; }
trap cleanup EXIT

if [ $# -gt 0 ]; then NAMES="$*"; else NAMES="BASELINE $(cd "$VERIF/mutants" && ls *.diff | sed 's/\.diff$//') $(ls -d "$VERIF"/seeded/*/ | sed 's|/$||; s|$|/patch.diff|')"; fi
OUT="$VERIF/mutants/RESULTS-$TIER.tsv"
[ $# -gt 0 ] && OUT="/dev/null"
{
printf "mutant\texpected\tsuite\t%s\n" "$(echo $IDS | tr ' ' '\t')"
for name in $NAMES; do
    git -C "$S/repo" checkout -q -- . 
    expected="-"
    if [ "$name" != "BASELINE" ]; then
        patch="$VERIF/mutants/$name.diff"
        case "$name" in
            */seeded/*/patch.diff) patch="$name"; name="seeded/$(basename "$(dirname "$name")")"; expected="$(basename "$(dirname "$patch")" | cut -d- -f1)"; [ -f "$(dirname "$patch")/expected" ] && expected="$(cat "$(dirname "$patch")/expected")" ;;
            *.diff) patch="$name"; name="$(basename "$name" .diff)" ;;
        esac
        if ! git -C "$S/repo" apply "$patch" 2>"$S/apply.err"; then
            printf "%s\t-\tPATCH-DOES-NOT-APPLY\n" "$name"; continue
        fi
        [ "$expected" = "-" ] && expected=$(python3 -c "import json,sys; print(','.join(json.load(open('$VERIF/mutants/INDEX.json')).get('$name',[])))")
    fi
    # the repository's own suite must still pass (otherwise the mutant is not a realistic one)
    if (cd "$S/repo" && cargo test --workspace --offline >"$S/suite.log" 2>&1); then suite=pass; else suite=FAIL; fi
    row="$name\t$expected\t$suite"
    for id in $IDS; do
        "$S/verif/check" "$id" "$TIER" >"$S/$id.log" 2>&1
        rc=$?
        case $rc in
            0) cell="held" ;;
            1) cell="VIOLATION($(grep '^  class=' "$S/$id.log" | sed 's/.*class=//' | paste -sd+))" ;;
            *) cell="ERROR($rc)" ;;
        esac
        row="$row\t$cell"
    done
    printf "$row\n"
done
} | tee "$OUT"
