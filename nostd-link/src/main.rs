//! C13 build obligation: a binary without the standard library and WITHOUT a
//! global allocator that drives Interface::run and Interface::process on a
//! macro-generated interface.  If any code path of the library needed `alloc`,
//! this would not link (there is no #[global_allocator] and `alloc` is not
//! even on the link line).
#![no_std]
#![no_main]

use core::future::Future;
use core::pin::pin;
use core::task::{Context, Poll, RawWaker, RawWakerVTable, Waker};

use microscpi::{self as scpi, Adapter, ErrorCommands, ErrorQueue, Interface, StandardCommands, StaticErrorQueue};

#[panic_handler]
fn panic(_: &core::panic::PanicInfo) -> ! {
    loop {}
}

#[no_mangle]
extern "C" fn rust_eh_personality() {}

pub struct Dev {
    errors: StaticErrorQueue<4>,
    value: u64,
}

impl ErrorCommands for Dev {
    fn error_queue(&mut self) -> &mut impl ErrorQueue {
        &mut self.errors
    }
}
impl StandardCommands for Dev {}

#[scpi::interface(StandardCommands, ErrorCommands)]
impl Dev {
    #[scpi(cmd = "*IDN?")]
    async fn idn(&mut self) -> Result<&str, scpi::Error> {
        Ok("NOSTD,LINK,0,1")
    }
    #[scpi(cmd = "SYSTem:VALue?")]
    async fn value(&mut self) -> Result<u64, scpi::Error> {
        Ok(self.value)
    }
    #[scpi(cmd = "SYSTem:VALue")]
    async fn set_value(&mut self, v: u64) -> Result<(), scpi::Error> {
        self.value = v;
        Ok(())
    }
    #[scpi(cmd = "MEASure:REAL?")]
    async fn real(&mut self, a: f64, b: f32) -> Result<(f64, f32, bool), scpi::Error> {
        Ok((a * 2.0, b, a > 1.0))
    }
    #[scpi(cmd = "DATA:BLOCk?")]
    async fn blk(&mut self, d: &[u8]) -> Result<scpi::Arbitrary<'_>, scpi::Error> {
        let _ = d;
        Ok(scpi::Arbitrary(b"abc"))
    }
    #[scpi(cmd = "DATA:STRing?")]
    async fn string(&mut self, s: &str) -> Result<scpi::Characters<'_>, scpi::Error> {
        let _ = s;
        Ok(scpi::Characters("OK"))
    }
}

struct Link {
    data: &'static [u8],
    pos: usize,
    sum: usize,
}

impl Adapter for Link {
    type Error = ();
    async fn read(&mut self, dst: &mut [u8]) -> Result<usize, ()> {
        if self.pos >= self.data.len() {
            return Err(());
        }
        let n = dst.len().min(3).min(self.data.len() - self.pos);
        dst[..n].copy_from_slice(&self.data[self.pos..self.pos + n]);
        self.pos += n;
        Ok(n)
    }
    async fn write(&mut self, src: &[u8]) -> Result<(), ()> {
        self.sum += src.len();
        Ok(())
    }
    async fn flush(&mut self) -> Result<(), ()> {
        Ok(())
    }
}

fn block_on<F: Future>(f: F) -> F::Output {
    fn clone(_: *const ()) -> RawWaker {
        RawWaker::new(core::ptr::null(), &VT)
    }
    fn noop(_: *const ()) {}
    static VT: RawWakerVTable = RawWakerVTable::new(clone, noop, noop, noop);
    let w = unsafe { Waker::from_raw(RawWaker::new(core::ptr::null(), &VT)) };
    let mut cx = Context::from_waker(&w);
    let mut f = pin!(f);
    loop {
        if let Poll::Ready(x) = f.as_mut().poll(&mut cx) {
            return x;
        }
    }
}

const INPUT: &[u8] = b"*IDN?\nSYST:VAL 42;VAL?\nMEAS:REAL? 1.5,2e3\nDATA:BLOC? #13abc;STR? \"x;y\"\nNOPE\nSYST:ERR?;ERR:COUN?\nSYST:VERS?\n";

// entry point: align the stack as the ABI requires, then call into Rust
core::arch::global_asm!(".globl _start", "_start:", "xor ebp, ebp", "and rsp, -16", "call sim_main", "ud2");

#[no_mangle]
pub extern "C" fn sim_main() -> ! {
    let mut dev = Dev { errors: StaticErrorQueue::new(), value: 0 };
    let mut out: heapless_vec::Out = heapless_vec::new();
    let rest = block_on(dev.run(INPUT, &mut out));
    let mut link = Link { data: INPUT, pos: 0, sum: rest.len() + out.len() };
    let _ = block_on(dev.process::<64, _>(&mut link));
    unsafe { exit(if link.sum > 0 { 0 } else { 1 }) }
}

extern "C" {
    fn exit(code: i32) -> !;
}

/// the fixed-capacity response buffer shipped with the library
mod heapless_vec {
    pub type Out = heapless::Vec<u8, 256>;
    pub fn new() -> Out {
        heapless::Vec::new()
    }
}
